"""Systematic single-line mutation sweep of the engine's core (development aid, not a registered check).

  python tools/mutate_sweep.py gen   <outdir>          write one patch per mutant of manager.py / storage.py / graph.py
  python tools/mutate_sweep.py tests <outdir>          run the repository's test suite on each (per-test timeout 20 s); writes survivors.json
  python tools/mutate_sweep.py checks <outdir> C02 C03 ...   run the given checks on every survivor; writes results.json

Scratch copies are made under the system temp dir and removed.
"""
import difflib
import json
import os
import re
import shutil
import subprocess
import sys
import tempfile

REPO = '/repo'
FILES = ['ml_pipeline_engine/dag/manager.py', 'ml_pipeline_engine/dag/storage.py', 'ml_pipeline_engine/dag/graph.py']


def mutants_of(path: str, src: str):
    lines = src.splitlines(True)
    out = []
    for i, ln in enumerate(lines):
        s = ln.strip()
        ind = ln[: len(ln) - len(ln.lstrip())]
        new = None
        kind = None
        if s.startswith('await self.__unlock') or s.startswith('await self._lock_manager.unlock') or s.startswith('self.__unlock_execution_lock') \
                or s.startswith('self._lock_manager.unlock_event') or re.match(r'self\._node_storage\.(set|hide|delete|copy)_\w+\(.*\)$', s) \
                or s.startswith('self._stop_coro_tasks(') or s.startswith('condition.notify_all()'):
            new, kind = ind + 'pass\n', 'delete-stmt'
        elif re.match(r'(if|elif) .*:$', s) and ' not ' not in s[:8]:
            kw, cond = s.split(' ', 1)
            new, kind = f'{ind}{kw} not ({cond[:-1]}):\n', 'negate-cond'
        if new is not None:
            out.append((i, kind, new))
        if 'with_hidden=True' in ln:
            out.append((i, 'hidden-false', ln.replace('with_hidden=True', 'with_hidden=False')))
        if ' and ' in s and s.startswith(('if ', 'elif ', 'return ', 'or ', 'and ')):
            out.append((i, 'and-to-or', ln.replace(' and ', ' or ', 1)))
        if re.search(r'range\(max_iterations\)', ln):
            out.append((i, 'off-by-one', ln.replace('range(max_iterations)', 'range(max_iterations + 1)')))
    for i, kind, new in out:
        mutated = lines[:i] + [new] + lines[i + 1:]
        diff = ''.join(difflib.unified_diff(lines, mutated, 'a/' + path, 'b/' + path))
        yield f'{os.path.basename(path)[:-3]}_L{i + 1}_{kind}', diff


def gen(outdir: str) -> None:
    os.makedirs(outdir, exist_ok=True)
    n = 0
    for f in FILES:
        src = open(os.path.join(REPO, f)).read()
        for name, diff in mutants_of(f, src):
            open(os.path.join(outdir, name + '.patch'), 'w').write(diff)
            n += 1
    print('mutants', n)


def scratch(patch: str):
    d = tempfile.mkdtemp(prefix='mpe_mut_')
    for x in ('ml_pipeline_engine', 'ml_pipeline_viewer', 'tests', 'pyproject.toml'):
        src = os.path.join(REPO, x)
        (shutil.copytree if os.path.isdir(src) else shutil.copy)(src, os.path.join(d, x))
    r = subprocess.run(['patch', '-p1', '-s', '--no-backup-if-mismatch', '-i', patch], cwd=d, capture_output=True)
    if r.returncode != 0:
        shutil.rmtree(d)
        return None
    try:
        compile(open(os.path.join(d, FILES[0])).read(), 'm', 'exec')
    except SyntaxError:
        shutil.rmtree(d)
        return None
    return d


def tests(outdir: str) -> None:
    from concurrent.futures import ThreadPoolExecutor
    patches = sorted(p for p in os.listdir(outdir) if p.endswith('.patch'))

    def one(p):
        d = scratch(os.path.join(outdir, p))
        if d is None:
            return p, 'invalid'
        try:
            r = subprocess.run(['/venv/bin/python', '-m', 'pytest', '-q', '-x', '-p', 'no:cacheprovider', '--timeout=20',
                                '--deselect', 'tests/visualization'], cwd=d, capture_output=True, text=True, timeout=900)
            return p, 'survives' if r.returncode == 0 else 'killed'
        except subprocess.TimeoutExpired:
            return p, 'killed'
        finally:
            shutil.rmtree(d, ignore_errors=True)

    res = {}
    with ThreadPoolExecutor(6) as ex:
        for p, v in ex.map(one, patches):
            res[p] = v
            print(p, v, flush=True)
    json.dump(res, open(os.path.join(outdir, 'survival.json'), 'w'), indent=1)
    print({k: list(res.values()).count(k) for k in set(res.values())})


def checks(outdir: str, props) -> None:
    res = json.load(open(os.path.join(outdir, 'survival.json')))
    surv = sorted(p for p, v in res.items() if v == 'survives')
    out_p = os.path.join(outdir, 'results.json')
    out = json.load(open(out_p)) if os.path.exists(out_p) else {}
    for p in surv:
        if p in out:
            continue
        d = scratch(os.path.join(outdir, p))
        row = {}
        for prop in props:
            env = dict(os.environ, MPE_REPO=d, PYTHONHASHSEED='0', PYTHONPATH=f'/verif:{d}')
            r = subprocess.run(['/venv/bin/python', '-m', 'mc.check', prop, '--tier', 'quick', '--no-evidence'], cwd='/verif',
                               capture_output=True, text=True, env=env)
            first = next((l.strip() for l in r.stdout.splitlines() if 'symptom=' in l), '')
            row[prop] = [r.returncode, first[:200]]
            if r.returncode == 1:
                break        # detected: enough
        shutil.rmtree(d, ignore_errors=True)
        out[p] = row
        json.dump(out, open(out_p, 'w'), indent=1)
        print(p, {k: v[0] for k, v in row.items()}, flush=True)


if __name__ == '__main__':
    cmd = sys.argv[1]
    if cmd == 'gen':
        gen(sys.argv[2])
    elif cmd == 'tests':
        tests(sys.argv[2])
    else:
        checks(sys.argv[2], sys.argv[3:])
