#!/bin/bash
# usage: tools/sumall.sh C01 C02 ...   -> compact clusters of unexplained violations
for p in "$@"; do echo "=== $p"; PYTHONPATH=/verif:/repo /venv/bin/python -m mc.check $p --tier ${TIER:-quick} --no-evidence --summary > /tmp/sum_$p.txt 2>&1; grep -E "^[0-9]+ \(" /tmp/sum_$p.txt | sed -E "s/^([0-9]+) \('[^']*', /\1 (/" | awk '{c=$1; $1=""; a[$0]+=c} END{for(k in a) print a[k], k}' | sort -k2 | cut -c1-${W:-260}; grep -E "INTERNAL|Traceback|Error" /tmp/sum_$p.txt | head -3; done
