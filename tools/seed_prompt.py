"""Print the prompt for a seeding sub-agent: python tools/seed_prompt.py C04 <worktree> <outdir>"""
import json, sys
pid, wt, out = sys.argv[1:4]
p = [json.loads(l) for l in open('/verif/properties.jsonl') if json.loads(l)['id'] == pid][0]
print(f"""You are helping to evaluate a verification effort for the Python library tochka-public/ml-pipeline-engine (a small asyncio DAG execution engine: pipelines are built from type annotations with Input / SwitchCase / InputOneOf / RecurrentSubGraph marks and executed concurrently, with retries, event managers and artifact stores).

You have your own scratch git worktree of the library at {wt} . Work ONLY inside {wt} and {out} (create {out}). Do not look at or touch /verif or /repo, and do not read any other /tmp/seed_* directory. Use /venv/bin/python (the library's dependencies and pytest are installed there). There is no network.

The library is supposed to satisfy this property:

  Title: {p['title']}
  Statement: {p['statement']}
  Quantifier: {p['quantifier']['text']}

Your task: write ONE realistic change (a bug a developer could plausibly introduce: a refactoring slip, a misplaced await, a wrong condition, a cache, a reordering, state kept in the wrong place ...) to the library source under {wt}/ml_pipeline_engine (or ml_pipeline_viewer if the property is about it) that BREAKS the property above, while:
  1. the package still imports, and the repository's own test suite still passes exactly as before: run `cd {wt} && /venv/bin/python -m pytest -q -p no:cacheprovider --timeout=900` before and after; on the unchanged tree 62 tests pass and the 2 tests in tests/visualization fail (a missing package, ignore those two) and it must be the same with your change;
  2. the break needs something SPECIFIC to manifest -- a particular interleaving/completion order of concurrently running nodes, a fault at a particular point, a multi-step sequence of operations, an unusual but legal input or pipeline shape, or two cooperating code sites that each look fine alone -- i.e. NOT something ordinary use or the simplest pipeline would expose at once;
  3. the change is small (a few lines, at most ~25) and does not touch tests.

Also write a demonstration: a standalone script {out}/demo.py (run as `cd {wt} && PYTHONPATH={wt} /venv/bin/python {out}/demo.py`) that exits 0 on the unchanged library and exits non-zero (assertion failure or detected hang via asyncio.wait_for timeout) with your change applied. If the manifestation depends on completion order, force that order deterministically in the demo (asyncio.Event / sleeps inside node bodies). Verify both directions yourself with `git diff > patch.diff; git apply -R patch.diff; <demo>; git apply patch.diff; <demo>` -- NEVER use `git stash` (the stash is shared between worktrees of other agents).

Deliverables in {out}/ :
  - patch.diff  (output of `git -C {wt} diff` with your change applied; leave the change applied in the worktree as well)
  - demo.py
  - notes.md: which part of the property it breaks, what exactly is needed for it to manifest (shape of pipeline, ordering, fault, sequence), the test-suite result before/after (pass counts), and the demo's exit status before/after.

Read the library code first (it is about 3000 lines; the core is ml_pipeline_engine/dag/manager.py, dag/storage.py, dag/graph.py, dag_builders/annotation/builder.py, node/node.py, chart.py, context/dag.py, events.py, artifact_store/, parallelism/). Prefer a change in a code path the existing tests exercise only lightly. Be concrete and finish with a short summary of what you did and the verification you ran.""")
