"""Development aid: run families at a bound with all monitors, cluster violations by (family, symptom, tags)."""
import collections, json, sys, time
from mc import env
from mc import enumerate as EN, explore as X, runner as RU

MON = ['term', 'outcome', 'kwargs', 'counts', 'order', 'left', 'events', 'varies']

def work(arg):
    fam, spec, bound, mode, collab = arg
    out = []
    sp = EN.with_mode(spec, mode) if mode != 'async' else spec
    for plan in EN.plans(sp):
        case = X.Case(sp, [plan], collab=collab, fam=fam)
        r = RU.run_case(case, bound, MON, limit=3000)
        out.append((fam, r.executions, r.capped, r.internal, r.tags, {k: v[:2] for k, v in r.viol.items()}, r.case if r.viol or r.internal else None))
    return out

if __name__ == '__main__':
    fams = sys.argv[1].split(','); tier = sys.argv[2]; bound = int(sys.argv[3]); mode = sys.argv[4] if len(sys.argv) > 4 else 'async'
    collab = json.loads(sys.argv[5]) if len(sys.argv) > 5 else {}
    t0 = time.time()
    items = [(f, s, bound, mode, collab) for f in fams for s in EN.family(f, tier)]
    agg = collections.Counter(); ex = {}; n = 0; nexec = 0; clean = collections.Counter(); total = collections.Counter()
    for res in RU.pmap(work, items):
        if res and res[0] == '__error__':
            print(res[1]); print(res[2]); continue
        for fam, e, capped, internal, tags, viol, case in res:
            n += 1; nexec += e; total[fam] += 1
            if internal: agg[(fam, 'INTERNAL', internal[:80])] += 1
            if capped: agg[(fam, 'CAPPED', '')] += 1
            if not viol: clean[fam] += 1
            for sym, (cnt, detail) in viol.items():
                key = (fam, sym, ' '.join(t for t in tags))
                agg[key] += 1
                if key not in ex or len(json.dumps(case)) < len(json.dumps(ex[key][0])): ex[key] = (case, detail)
    print('cases', n, 'executions', nexec, '%.1fs' % (time.time() - t0))
    for f in total: print(f, 'clean', clean[f], 'of', total[f])
    for k, v in sorted(agg.items()): print(v, k)
    json.dump({' | '.join(k): v for k, v in ex.items()}, open('/tmp/landscape.json', 'w'), indent=1, default=repr)
