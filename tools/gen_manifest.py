"""Regenerate /verif/MANIFEST.json from the table below (python3 tools/gen_manifest.py)."""
import json
import os

ROOT = os.path.dirname(os.path.dirname(os.path.abspath(__file__)))
CMD = 'PYTHONHASHSEED=0 PYTHONPATH=/verif:/repo /venv/bin/python -m mc.check {p} --tier {t}'

E1 = ('stateless deviation-bounded schedule exploration of the real engine on a controlled asyncio loop, '
      'over bounded-exhaustively generated pipelines, with a reference dataflow interpreter as oracle')
E3 = 'explicit-state breadth-first search over operation histories on the real objects, against a reference model'
E2 = 'bounded-exhaustive program enumeration against an independently computed relation'

CHECKS = {
    'C01': (E1, '2.3, 2.6, 2.7, 4/C01', 'every schedule with <= d deviations of every generated (program, plan) case returns the reference value / an accepted failure cause, and the outcome class is the same in all schedules of a case'),
    'C02': (E1, '2.3, 4/C02', 'no reachable terminal state with an idle loop, nothing outstanding and the run pending (exact deadlock verdict), no livelock within the step horizon, for every schedule <= d of every case incl. gated and raising collaborators'),
    'C03': (E1, '2.8, 4/C03', 'for every body invocation in every explored schedule: key set, values equal to the reference values, no failure objects / Recurrent markers, producers finished first'),
    'C04': (E1, '4/C04', 'per-node invocation counts never exceed the reference in any explored schedule, with yielding and gated event managers opening every check-then-act window'),
    'C05': (E1, '4/C05', 'verdict and error identity vs the reference accept-set for every placement of one and two failing nodes, in every explored schedule'),
    'C09': (E1, '4/C09', 'switch programs: consumer argument = selected case, non-selected cases and their private ancestors never execute, unknown label = error result, in every explored schedule'),
    'C10': (E1, '4/C10', 'one-of programs: first successful candidate wins, later candidates lazy and ordered, failures contained, all-fail error, in every explored schedule'),
    'C11': (E1, '4/C11', 'recurrent programs: per-epoch invocation log equals the reference, consumers see only final results / default / documented error, in every explored schedule'),
    'C13': (E1, '4/C13', 'after the run task is done nothing is pending and nothing starts later, for every early-failure plan and for a caller cancellation injected at every loop step'),
    'C14': (E1, '4/C14', 'lifecycle-event automaton over the merged trace for every explored schedule, with instant / yielding / gated managers'),
    'C19': (E1, '4/C19', 'recording write-once store: each executed node saved once with the value consumers received, no markers or failures saved, run outcome unchanged, in every explored schedule'),
    'C06': (E1, '4/C06', 'plain DAGs x execution-mode assignments: at every quiescent state of every d=0 schedule all nodes of the next depth have started'),
    'C07': (E3, '2.9, 4/C07', 'BFS over run histories on one chart object; every transition compared with a fresh chart and with the deep snapshot of everything the chart shares between runs'),
    'C08': (E1, '4/C08', 'two (thorough: three) overlapping runs of one chart, and of two charts built from the same node classes, on one controlled loop, all interleavings <= d, each run compared with its solo outcome and trace'),
    'C12': (E1, '4/C12', 'retry configuration grid x per-attempt outcome sequences x hosts, all interleavings of the retry timer with sibling completions, virtual-time delays'),
    'C15': (E2, '4/C15', 'built graph equals the relation computed from the spec for every generated program and parameter order'),
    'C16': (E2, '4/C16', 'every single-defect mutation at every position is rejected with the documented error; every valid program builds'),
    'C17': (E1, '4/C17', 'every execution-mode assignment gives the reference outcome in every d=0 schedule; every pool-registry state fails fast; real-pool conformance runs'),
    'C18': (E3, '2.9, 4/C18', 'BFS over save/load histories on the real filesystem store against a dict model, plus all bounded histories on one store object with in-place mutation of saved / loaded values'),
    'C20': (E2, '4/C20', 'viewer description is a bijection with DAG nodes/edges for every generated program'),
}

NOTE = ('bounded: program size, plan alphabet, configurations and deviation bound are listed in the evidence file; '
        'trusted base: mc/ (controlled loop, fake executors, reference interpreter, monitors), CPython asyncio, networkx')


def main() -> None:
    props = [json.loads(l)['id'] for l in open(os.path.join(ROOT, 'properties.jsonl'))]
    done = [p for p in props if os.path.exists(os.path.join(ROOT, 'evidence', f'{p}.json')) and p in CHECKS
            and p not in json.load(open(os.path.join(ROOT, 'tools', 'unclaimed.json')))]
    checks = []
    for p in done:
        tech, ref, text = CHECKS[p]
        checks.append({
            'property_id': p,
            'quick_cmd': CMD.format(p=p, t='quick'),
            'thorough_cmd': CMD.format(p=p, t='thorough'),
            'evidence_file': f'/verif/evidence/{p}.json',
            'replay_cmd_template': 'PYTHONHASHSEED=0 PYTHONPATH=/verif:/repo /venv/bin/python -m mc.replay {path}',
            'engine': 'mc',
            'level_claimed': {'category': 'model_checking', 'text': text, 'design_ref': ref},
            'level_note': NOTE,
            'technique': tech,
        })
    unclaimed = json.load(open(os.path.join(ROOT, 'tools', 'unclaimed.json')))
    na = [{'property_id': p, 'reason': unclaimed.get(p, 'check under construction in this round; claimed once it is silent on the unchanged tree')}
          for p in props if p not in done]
    m = {
        'version': 1,
        'setup_cmd': 'PYTHONHASHSEED=0 PYTHONPATH=/verif:/repo /venv/bin/python -m mc.selftest',
        'hooks': {
            'guard': 'ML_PIPELINE_ENGINE_VERIF',
            'enable': ('no source hooks are needed: the engine is driven through its public extension points (node classes, '
                       'pool registries, event managers, artifact stores); checks import it from /repo\'s working tree via PYTHONPATH, '
                       'so they always run the current sources'),
            'baseline_off_cmd': 'cd /repo && /venv/bin/python -m pytest -ra -q -p no:cacheprovider --timeout=900 --continue-on-collection-errors',
            'source_commits': [],
            'add_only': True,
        },
        'engines': [{'name': 'mc', 'path': '/verif/mc', 'serves_properties': done,
                     'kind_free_text': 'hand-written stateless explicit-schedule explorer for asyncio code (controlled BaseEventLoop), '
                                       'bounded-exhaustive program generator + reference interpreter, explicit-state BFS over histories'}],
        'checks': checks,
        'not_applicable': na,
        'notes': 'Known findings: /verif/KNOWN_FINDINGS.json. Design: /verif/DESIGN.md. Seeded changes: /verif/seeded/.',
    }
    if not na:
        del m['not_applicable']
    with open(os.path.join(ROOT, 'MANIFEST.json'), 'w') as f:
        json.dump(m, f, indent=1)
    print('claimed', done, 'unclaimed', [x['property_id'] for x in na])


if __name__ == '__main__':
    main()
