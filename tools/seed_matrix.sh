#!/bin/bash
# Re-run every seeded change against its target property (quick tier) and record the verdict in meta.json (key final_check).
for d in /verif/seeded/*/; do
  id=$(basename $d); prop=$(echo $id | sed -E 's/^s[0-9]+_(C[0-9]+)_.*/\1/')
  r=$(/verif/tools/mutant.sh $d/patch.diff $prop 2>&1 | cut -c1-260)
  echo "$id $r"
  python3 - "$d/meta.json" "$prop" "$r" <<PY
import json,sys
p,prop,r=sys.argv[1:4]; m=json.load(open(p)); m['target_property']=prop; m['final_check']=r; m['detected_by_target']=('rc=1' in r); json.dump(m,open(p,'w'),indent=1)
PY
done
