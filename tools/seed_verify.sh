#!/bin/bash
# usage: tools/seed_verify.sh <seed-id> <outdir-of-agent> <target-prop> [<more props to run>...]
# Confirms an agent-written change in a fresh scratch worktree (tests pass, demo passes without / fails with it),
# runs the given checks against it, stores everything under /verif/seeded/<seed-id>/, removes the worktree.
id=$1; out=$2; shift 2; props="$@"
wt=/tmp/sv_$id
git -C /repo worktree add -q --detach $wt HEAD || exit 2
dst=/verif/seeded/$id; mkdir -p $dst
cp $out/patch.diff $dst/patch.diff; cp $out/demo.py $dst/demo.py; [ -f $out/notes.md ] && cp $out/notes.md $dst/agent_notes.md
sed -i "s#/tmp/seed_[A-Za-z0-9_]*#$wt#g; s#/tmp/seedout_[A-Za-z0-9_]*#$dst#g" $dst/demo.py
run_demo() { (cd $wt && PYTHONPATH=$wt timeout 120 /venv/bin/python $dst/demo.py >/tmp/sv_demo_$id.log 2>&1; echo $?); }
d0=$(run_demo)
if ! git -C $wt apply $dst/patch.diff; then echo "PATCH does not apply"; git -C /repo worktree remove --force $wt; exit 2; fi
tests=$(cd $wt && /venv/bin/python -m pytest -q -p no:cacheprovider --timeout=900 2>&1 | tail -1)
d1=$(run_demo)
echo "seed=$id demo_unchanged=$d0 demo_changed=$d1 tests_changed: $tests"
res="{}"
declare -A R
for p in $props; do
  o=$(cd /verif && MPE_REPO=$wt PYTHONHASHSEED=0 PYTHONPATH=/verif:$wt /venv/bin/python -m mc.check $p --tier ${TIER:-quick} --no-evidence 2>&1); rc=$?
  first=$(echo "$o" | grep -m1 "symptom=" | cut -c1-260)
  echo "  $p rc=$rc $first"
  R[$p]="rc=$rc $first"
done
python3 - "$id" "$d0" "$d1" "$tests" "$props" <<PY
import json,sys,os
id,d0,d1,tests,props=sys.argv[1:6]
meta_p=f'/verif/seeded/{id}/meta.json'
meta=json.load(open(meta_p)) if os.path.exists(meta_p) else {}
meta.update(dict(seed=id, demo_exit_unchanged=int(d0), demo_exit_changed=int(d1), tests_with_change=tests))
json.dump(meta,open(meta_p,'w'),indent=1)
PY
for p in $props; do python3 - "$id" "$p" "${R[$p]}" <<PY
import json,sys
id,p,r=sys.argv[1:4]
meta_p=f'/verif/seeded/{id}/meta.json'; meta=json.load(open(meta_p)); meta.setdefault('checks',{})[p]=r; json.dump(meta,open(meta_p,'w'),indent=1)
PY
done
git -C /repo worktree remove --force $wt; rm -f /tmp/sv_demo_$id.log
