#!/bin/bash
# usage: tools/mutant.sh <patch-file> <prop> [<prop> ...]   (env TIER=quick|thorough, TESTS=1 to also run the repo's test suite)
# Applies the patch to a scratch copy of /repo's working tree (outside /repo and /verif), runs the checks against it
# through MPE_REPO, prints one line per property, removes the copy.
patch=$(realpath $1); shift
scratch=$(mktemp -d /tmp/mpe_mut_XXXXXX)
cp -r /repo/ml_pipeline_engine /repo/ml_pipeline_viewer /repo/tests /repo/pyproject.toml "$scratch"/ 2>/dev/null
if ! (cd "$scratch" && patch -p1 -s --no-backup-if-mismatch < "$patch" >/dev/null 2>&1); then echo "PATCH-FAILED $patch"; rm -rf "$scratch"; exit 2; fi
if [ -n "$TESTS" ]; then (cd "$scratch" && /venv/bin/python -m pytest -q -p no:cacheprovider --timeout=900 -x -q --deselect tests/visualization 2>&1 | tail -1); fi
for p in "$@"; do
  out=$(cd /verif && VERIF_SUITE=$VERIF_SUITE MPE_REPO="$scratch" PYTHONHASHSEED=0 PYTHONPATH=/verif:"$scratch" /venv/bin/python -m mc.check $p --tier ${TIER:-quick} --no-evidence 2>&1)
  rc=$?
  n=$(echo "$out" | grep -c "^VIOLATION")
  first=$(echo "$out" | grep -m1 "symptom=" | cut -c1-200)
  echo "$(basename $patch) $p rc=$rc violations_printed=$n $first"
done
rm -rf "$scratch"
