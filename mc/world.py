"""Per-execution harness state shared by generated node bodies, fake executors and recording
collaborators (DESIGN 2.1, 2.6 'generated bodies', 2.8 'trace model').

Everything the engine can observe from here goes through its public extension points: node
classes, `threads_pool_registry` / `process_pool_registry`, event-manager and artifact-store
classes registered on the chart.
"""
import asyncio
import concurrent.futures as cf
import contextvars
import enum
import os
import typing as t


class E1(Exception):
    pass


class E2(Exception):
    """Its instances are FALSY (like an error-collection exception that defines __len__ and happens to be empty): every
    plan that uses E2 also exercises the engine's handling of failures whose truth value is False."""

    def __bool__(self) -> bool:
        return False


class E3(Exception):
    """An exception that cannot be rendered: str(e) raises (an API error whose message is looked up in a payload that lacks
    it).  The engine must treat it like any other failure and never needs its text."""

    def __str__(self) -> str:
        raise KeyError('message')


class Fatal(BaseException):
    """A BaseException outside Exception (not KeyboardInterrupt/SystemExit: asyncio re-raises those
    out of Handle._run, which is a property of asyncio and not of the engine)."""


class CollabError(Exception):
    pass


class ExcValue(Exception):
    """An exception INSTANCE that a node RETURNS as an ordinary value (an error descriptor): never raised."""

    def __eq__(self, other) -> bool:
        return type(other) is ExcValue and other.args == self.args

    def __hash__(self) -> int:
        return hash(('ExcValue', self.args))


class Opaque:
    """An input value that can be neither copied nor pickled (a client object owning a lock, a generator, ...): the engine
    has to pass the caller's object through as it is.  Cases name it by the marker string '@opaque'."""

    def __deepcopy__(self, memo):
        raise TypeError('cannot deep-copy an Opaque')

    def __copy__(self):
        raise TypeError('cannot copy an Opaque')

    def __reduce_ex__(self, protocol):
        raise TypeError('cannot pickle an Opaque')

    def __repr__(self) -> str:
        return "'@opaque'"


OPAQUE = Opaque()


class Ambig:
    """A value whose truth value is ambiguous (numpy / pandas style): bool(v) raises."""

    def __init__(self, payload) -> None:
        self.payload = payload

    def __bool__(self) -> bool:
        raise ValueError('The truth value of an Ambig is ambiguous')

    def __eq__(self, other) -> bool:
        return type(other) is Ambig and other.payload == self.payload

    def __hash__(self) -> int:
        return hash(('Ambig', self.payload))

    def __repr__(self) -> str:
        return f'Ambig({self.payload!r})'


EXC = {'E1': E1, 'E2': E2, 'E3': E3, 'Fatal': Fatal}


class _Missing:
    def __repr__(self) -> str:
        return '<MISSING>'

    def __reduce__(self):
        return (_get_missing, ())


def _get_missing():
    return MISSING


MISSING = _Missing()

RUN: contextvars.ContextVar = contextvars.ContextVar('mc_run', default=0)
CUR: t.Optional['World'] = None


class External:
    """A pending event whose arrival the environment decides. cls 'T' = posted from another thread
    (may land between any two callbacks); cls 'L' = produced by the loop's own poll/timer phase
    (may land only at an iteration boundary)."""
    __slots__ = ('label', 'cls', '_deliver', 'delivered', 'fut')

    def __init__(self, label: str, cls: str, deliver: t.Callable, fut: t.Any = None) -> None:
        self.label = label
        self.cls = cls
        self._deliver = deliver
        self.delivered = False
        self.fut = fut

    def alive(self) -> bool:
        if self.delivered:
            return False
        if self.fut is not None and self.fut.done():
            return False
        return True

    def deliver(self, loop) -> None:
        self.delivered = True
        self._deliver(loop)


def _safe_set(fut) -> None:
    if not fut.done():
        fut.set_result(None)


def lab(rid: int, name: str, i: int) -> str:
    return f'{name}#{i}' if rid == 0 else f'r{rid}/{name}#{i}'


class World:
    def __init__(self, plans: t.Sequence[dict], collab: t.Optional[dict] = None, gate_async: bool = True) -> None:
        self.plans = list(plans)
        self.collab = collab or {}
        self.gate_async = gate_async
        self.log: t.List[tuple] = []
        self.count: t.Dict[tuple, int] = {}
        self.ext: t.Dict[str, External] = {}
        self.raised: t.List[tuple] = []
        self.collab_count: t.Dict[tuple, int] = {}
        self.saved: t.Dict[tuple, t.Any] = {}
        self.persist: t.Optional[dict] = None      # write-once store contents that outlive this world (C07: keyed by pipeline id)
        self.pipeline_ids: t.List[tuple] = []
        self.given: t.Dict[int, dict] = {}          # rid -> what the caller passed to chart.run (pid / inputs / meta)
        self.sync_ctx = None
        self.loop = None
        self.njobs = 0

    def now(self) -> float:
        return self.loop.time() if self.loop is not None else 0.0

    def add_ext(self, ext: External) -> None:
        assert ext.label not in self.ext, f'duplicate external label {ext.label}'
        self.ext[ext.label] = ext

    def pending(self) -> t.List[External]:
        return [e for e in self.ext.values() if e.alive()]

    def outcome_token(self, rid: int, name: str, i: int) -> str:
        plan = self.plans[rid].get(name) if rid < len(self.plans) else None
        if not plan:
            return 'ok'
        return plan[min(i, len(plan) - 1)]


def _norm_kw(kw: t.Mapping) -> dict:
    out = {}
    for k, v in kw.items():
        if v is MISSING:
            continue
        out[k.value if isinstance(k, enum.Enum) else k] = v
    return out


def prov(name: str, kw: dict) -> tuple:
    return (name, tuple(sorted(kw.items(), key=lambda kv: kv[0])))


def _begin(name: str, kw: t.Mapping, rid: t.Optional[int] = None):
    w = CUR
    rid = RUN.get() if rid is None else rid
    kw = _norm_kw(kw)
    i = w.count.get((rid, name), 0)
    w.count[(rid, name)] = i + 1
    w.log.append(('start', rid, name, i, kw, w.now()))
    _body_log(name)
    return w, rid, i, kw


def _finish(w: World, rid: int, name: str, i: int, kw: dict, node_self: t.Any, fixed: t.Optional[str] = None):
    oc = fixed if fixed is not None else w.outcome_token(rid, name, i)
    w.log.append(('end', rid, name, i, oc, w.now()))
    reused = _instance_calls(node_self)
    if oc == 'ok':
        if not _factory_built(node_self):
            return prov(name, kw) + (('instance-not-factory-built',),)
        if reused > 1:
            # the engine creates a fresh node instance per invocation; state kept on `self` by an earlier attempt must not
            # be visible (it would be in the in-memory modes but not through a process pool, which pickles the callable)
            return prov(name, kw) + (('instance-reused', reused),)
        return prov(name, kw)
    if oc == 'none':
        return None
    if oc == 'zero':
        return 0
    if oc == 'ambig':
        return Ambig(prov(name, kw))
    if oc == 'excval':
        return ExcValue(name, prov(name, kw))
    if oc == 'unhashable':
        return ['a']            # a switch label that cannot even be looked up
    if oc.startswith('label:'):
        return oc[6:]
    if oc.startswith('raise:'):
        e = EXC[oc[6:]](name, i)
        w.raised.append((rid, name, i, e))
        raise e
    if oc == 'next':
        return node_self.next_iteration(('it', name, i))
    if oc == 'next0':
        return node_self.next_iteration(0)      # a falsy, non-None payload
    raise AssertionError(oc)


def _instance_calls(node_self: t.Any) -> int:
    n = getattr(node_self, '_mc_inst_calls', 0) + 1
    try:
        node_self._mc_inst_calls = n
    except Exception:  # noqa: BLE001
        pass
    return n


def pure_value(name: str, kw: t.Mapping, oc: str, node_self: t.Any, i: int = 0):
    """Body semantics without a World (real-pool conformance pass in child processes)."""
    kw = _norm_kw(kw)
    reused = _instance_calls(node_self)
    if oc == 'ok':
        return prov(name, kw) + ((('instance-reused', reused),) if reused > 1 else ())
    if oc == 'none':
        return None
    if oc == 'zero':
        return 0
    if oc == 'ambig':
        return Ambig(prov(name, kw))
    if oc == 'excval':
        return ExcValue(name, prov(name, kw))
    if oc == 'unhashable':
        return ['a']
    if oc.startswith('label:'):
        return oc[6:]
    if oc.startswith('raise:'):
        raise EXC[oc[6:]](name, i)
    if oc == 'next':
        return node_self.next_iteration(('it', name, i))
    if oc == 'next0':
        return node_self.next_iteration(0)
    raise AssertionError(oc)


async def abody(name: str, node_self: t.Any, kw: t.Mapping, fixed: t.Optional[str] = None):
    if CUR is None:
        return pure_value(name, kw, fixed or 'ok', node_self)
    w, rid, i, kw = _begin(name, kw)
    if w.gate_async:
        loop = asyncio.get_running_loop()
        fut = loop.create_future()
        w.add_ext(External(lab(rid, name, i), 'L', lambda lp, fut=fut: lp.call_soon(_safe_set, fut), fut))
        try:
            await fut
        except asyncio.CancelledError:
            w.log.append(('cancelled', rid, name, i))
            raise
    return _finish(w, rid, name, i, kw, node_self, fixed)


MAIN_PID = os.getpid()
REAL_POOLS = False   # set by the real-pool conformance subprocess (mc.props.c17_sub)


def sbody(name: str, node_self: t.Any, kw: t.Mapping, fixed: t.Optional[str] = None):
    w = CUR
    if w is None or (REAL_POOLS and os.getpid() != MAIN_PID):
        # real process pool (conformance pass): no shared World in the worker process
        _body_log(name)
        return pure_value(name, kw, fixed or 'ok', node_self)
    if w.sync_ctx is not None:
        rid, nm, i, kw2 = w.sync_ctx
        w.sync_ctx = None
        assert nm == name
        return _finish(w, rid, name, i, kw2, node_self, fixed)
    w, rid, i, kw = _begin(name, kw)
    return _finish(w, rid, name, i, kw, node_self, fixed)


def _body_log(name: str) -> None:
    path = os.environ.get('MC_BODY_LOG')
    if path:
        with open(path, 'a') as f:
            f.write(name + '\n')


def _factory_built(node_self: t.Any) -> bool:
    """Node classes generated with `factory` define default_factory (the engine's documented way to construct a node with
    collaborators): every instance the engine calls must come from it."""
    return node_self is None or not getattr(type(node_self), '_mc_factory', False) or getattr(node_self, '_mc_token', None) == 'factory'


def default(name: str, kw: t.Mapping, node_self: t.Any = None):
    w = CUR
    rid = RUN.get()
    kw = _norm_kw(kw)
    w.log.append(('default', rid, name, kw, w.now()))
    if getattr(type(node_self), '_mc_default_raises', False):
        i = w.count.get((rid, name), 1) - 1
        e = E2(name, i)
        e.from_default = True
        w.raised.append((rid, name, i, e))
        raise e
    if not _factory_built(node_self):
        return ('default', name, tuple(sorted(kw.items(), key=lambda kv: kv[0])), ('instance-not-factory-built',))
    return ('default', name, tuple(sorted(kw.items(), key=lambda kv: kv[0])))


class FakeExecutor:
    """Stands in for ThreadPoolExecutor / ProcessPoolExecutor: every submitted job 'starts' at once
    (start is logged at submit time) and completes when the explorer delivers it. The engine's real
    loop.run_in_executor -> wrap_future -> call_soon_threadsafe path is exercised."""
    _shutdown = False
    _shutdown_thread = False

    def __init__(self, kind: str) -> None:
        self.kind = kind

    def submit(self, fn, *args, **kwargs):
        w = CUR
        f = cf.Future()
        f.set_running_or_notify_cancel()
        func = getattr(fn, 'func', None)
        node_self = getattr(func, '__self__', None)
        name = getattr(type(node_self), '_mc_name', None)
        if name is not None and w is not None:
            _, rid, i, kw = _begin(name, getattr(fn, 'keywords', {}) or {})
            label = lab(rid, name, i)

            def deliver(loop, fn=fn, f=f, ctx=(rid, name, i, kw), kind=self.kind):
                w.sync_ctx = ctx
                try:
                    if kind == 'process':
                        # a process pool pickles the callable: the worker operates on a copy of the node instance
                        import pickle
                        fn = pickle.loads(pickle.dumps(fn))
                    res = fn(*args, **kwargs)
                except BaseException as e:  # noqa: BLE001
                    w.sync_ctx = None
                    f.set_exception(e)
                else:
                    f.set_result(res)
        else:
            w.njobs += 1
            label = f'job#{w.njobs}'

            def deliver(loop, fn=fn, f=f):
                try:
                    res = fn(*args, **kwargs)
                except BaseException as e:  # noqa: BLE001
                    f.set_exception(e)
                else:
                    f.set_result(res)
        w.add_ext(External(label, 'T', deliver))
        return f

    def shutdown(self, *a, **k) -> None:
        pass


FAKE_THREAD = FakeExecutor('thread')
FAKE_PROCESS = FakeExecutor('process')


def install_fake_executors() -> None:
    from ml_pipeline_engine.parallelism import process_pool_registry
    from ml_pipeline_engine.parallelism import threads_pool_registry
    threads_pool_registry._pool_executor = None
    process_pool_registry._pool_executor = None
    process_pool_registry._process_manager = None
    threads_pool_registry.register_pool_executor(FAKE_THREAD)
    process_pool_registry.register_pool_executor(FAKE_PROCESS)
    process_pool_registry.register_manager(_FakeManager())


class _FakeManager:
    def shutdown(self) -> None:
        pass


# --------------------------------------------------------------------------- collaborators

async def collab(kind: str, node_id: t.Any, payload: t.Any, mgr: int = 0) -> None:
    w = CUR
    rid = RUN.get()
    key = (rid, kind, mgr)
    k = w.collab_count.get(key, 0)
    w.collab_count[key] = k + 1
    w.log.append(('event', rid, kind, node_id, payload, mgr, w.now()))
    ra = w.collab.get('raise_at')
    if ra and ra[0] == kind and ra[1] == k and mgr == w.collab.get('raise_mgr', 0):
        raise CollabError(kind, k)
    mode = w.collab.get('mode', 'instant')
    kinds = w.collab.get('gate_kinds')
    if mode == 'gated' and kinds is not None and kind not in kinds:
        mode = 'instant'
    gm = w.collab.get('gate_mgrs')
    if mode == 'gated' and gm is not None and mgr not in gm:
        mode = 'instant'
    if mode == 'yield':
        await asyncio.sleep(0)
    elif mode == 'gated':
        loop = asyncio.get_running_loop()
        fut = loop.create_future()
        pre = '' if rid == 0 else f'r{rid}/'
        w.add_ext(External(f'{pre}ev{mgr}:{kind}:{node_id}#{k}', 'L',
                           lambda lp, fut=fut: lp.call_soon(_safe_set, fut), fut))
        await fut


class RecMgr:
    """Recording event manager (registered on charts as a class; instantiated per run by the engine)."""
    idx = 0

    def _bind(self) -> None:
        # the engine creates the managers per run (context): an instance that serves two runs would share whatever
        # per-run state a real manager keeps on `self`
        rid = RUN.get()
        mine = self.__dict__.setdefault('_mc_world_run', (id(CUR), rid))
        if mine != (id(CUR), rid):
            CUR.log.append(('anomaly', rid, 'manager-instance-shared-between-runs', f'{type(self).__name__} of run {mine[1]} also serves run {rid}'))

    def _ctx(self, ctx, result=None) -> None:
        # the context handed to every hook is the one of THIS run: the caller's id, input_kwargs and meta
        rid = RUN.get()
        g = CUR.given.get(rid) if CUR is not None else None
        if g is None:
            return
        bad = []
        if g.get('pid') is not None and getattr(ctx, 'pipeline_id', None) != g['pid']:
            bad.append(f'pipeline_id {getattr(ctx, "pipeline_id", None)!r} != {g["pid"]!r}')
        if getattr(ctx, 'meta', None) != g['meta']:
            bad.append(f'meta {getattr(ctx, "meta", None)!r} != {g["meta"]!r}')
        ik = getattr(ctx, 'input_kwargs', None)
        if not isinstance(ik, dict) or {k: v for k, v in ik.items() if k != 'additional_data'} != g['inputs']:
            bad.append(f'input_kwargs {ik!r} != {g["inputs"]!r}')
        if getattr(ctx, 'model_name', None) != 'mc':
            bad.append(f'model_name {getattr(ctx, "model_name", None)!r}')
        if result is not None and g.get('pid') is not None and getattr(result, 'pipeline_id', None) != g['pid']:
            bad.append(f'result.pipeline_id {getattr(result, "pipeline_id", None)!r} != {g["pid"]!r}')
        first = self.__dict__.setdefault('_mc_ctx', ctx)
        if first is not ctx:
            bad.append('a different context object than in the earlier hooks of this run')
        for b in bad:
            CUR.log.append(('anomaly', rid, 'context-mismatch', b))

    async def on_pipeline_start(self, ctx) -> None:
        self._bind()
        self._ctx(ctx)
        await collab('pipeline_start', None, None, self.idx)

    async def on_pipeline_complete(self, ctx, result) -> None:
        self._bind()
        self._ctx(ctx, result)
        await collab('pipeline_complete', None, result, self.idx)

    async def on_node_start(self, ctx, node_id) -> None:
        self._bind()
        self._ctx(ctx)
        await collab('node_start', node_id, None, self.idx)

    async def on_node_complete(self, ctx, node_id, error) -> None:
        self._bind()
        self._ctx(ctx)
        await collab('node_complete', node_id, error, self.idx)


class RecMgr2(RecMgr):
    idx = 1


_PARTIAL: t.Dict[tuple, type] = {}


def partial_mgr(missing: t.Sequence[str]) -> type:
    """A manager class (index 0) that does not define the given hooks at all (the engine looks hooks up by name; a manager
    implementing only some of them is legal)."""
    key = tuple(sorted(missing))
    if key not in _PARTIAL:
        ns = {'idx': 0, '_bind': RecMgr._bind, '_ctx': RecMgr._ctx}
        for kind in ('pipeline_start', 'pipeline_complete', 'node_start', 'node_complete'):
            if kind not in key:
                ns['on_' + kind] = getattr(RecMgr, 'on_' + kind)
        _PARTIAL[key] = type('PartialMgr_' + '_'.join(k.replace('_', '') for k in key), (), ns)
    return _PARTIAL[key]


class RecStore:
    """Recording artifact store; write-once when the world says so."""

    def __init__(self, ctx, *a, **k) -> None:
        self.ctx = ctx
        if CUR is not None:
            CUR.pipeline_ids.append((RUN.get(), getattr(ctx, 'pipeline_id', None)))

    async def save(self, node_id, data) -> None:
        from ml_pipeline_engine.artifact_store.errors import ArtifactAlreadyExists
        w = CUR
        rid = RUN.get()
        if w.persist is not None:
            # a store that outlives the run, keyed like the filesystem store: (pipeline id, node id)
            pk = (getattr(self.ctx, 'pipeline_id', None), node_id)
            if pk in w.persist:
                w.log.append(('save', rid, node_id, 'ALREADY-EXISTS', w.now()))
                raise ArtifactAlreadyExists(f'{node_id} already saved under this pipeline id by an earlier run')
            w.persist[pk] = data
        mine = self.__dict__.setdefault('_mc_world_run', (id(w), rid))
        if mine != (id(w), rid):
            w.log.append(('anomaly', rid, 'store-instance-shared-between-runs', f'store of run {mine[1]} also serves run {rid}'))
        key = (rid, 'save', 0)
        k = w.collab_count.get(key, 0)
        w.collab_count[key] = k + 1
        w.log.append(('save', rid, node_id, data, w.now()))
        ra = w.collab.get('raise_at')
        if ra and ra[0] == 'save' and ra[1] == k:
            raise CollabError('save', k)
        if w.collab.get('store') == 'once':
            if (rid, node_id) in w.saved:
                raise ArtifactAlreadyExists(f'{node_id} already saved')
        w.saved[(rid, node_id)] = data
        mode = w.collab.get('save_mode', w.collab.get('mode', 'instant'))
        if mode == 'yield':
            await asyncio.sleep(0)
        elif mode == 'gated':
            loop = asyncio.get_running_loop()
            fut = loop.create_future()
            pre = '' if rid == 0 else f'r{rid}/'
            w.add_ext(External(f'{pre}save:{node_id}#{k}', 'L',
                               lambda lp, fut=fut: lp.call_soon(_safe_set, fut), fut))
            await fut
        # the write is complete only here: a save that is cancelled while it is suspended has stored nothing
        w.log.append(('saved', rid, node_id, k, w.now()))

    async def load(self, node_id):
        return CUR.saved[(RUN.get(), node_id)]
