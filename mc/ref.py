"""Reference interpreter: the documented dataflow semantics evaluated over the *spec* (DESIGN 2.7).

Independent of the engine and of the built graph. Demand-driven, memoising. Produces the expected
outcome (value or accept-set of failure tokens), the expected invocation log, the set of nodes the
run may touch, expected get_default calls, retry timelines, and semantic feature tags.
"""
import typing as t
from dataclasses import dataclass
from dataclasses import field

from mc import spec as S

EXC_MATCH = {  # which configured class names catch which raised class
    'E1': {'E1'}, 'E2': {'E2'}, 'E3': {'E3'}, 'Exception': {'E1', 'E2', 'E3'},
}


@dataclass
class Inv:
    node: str
    idx: int          # invocation index of this node in the run (0-based, over all epochs/attempts)
    kwargs: dict
    attempt: int      # 1-based attempt within one execution
    epoch: int        # how many times this node had been (re)executed before (0 = first execution)
    outcome: str
    exec_id: int = 0  # execution number (same for all attempts of one execution)


@dataclass
class RefResult:
    outcome: tuple                       # ('value', v) | ('fail', frozenset(tokens))
    invocations: t.List[Inv]
    certain: t.Set[str]                  # nodes that must have executed (successful runs)
    touched: t.Set[str]                  # nodes that may execute; everything else is forbidden
    defaults: t.List[tuple]              # (node, kwargs, forced)
    tags: t.Set[str]
    values: t.Dict[str, t.Any]           # final value per node (Ok results only)
    gaps: t.List[tuple] = field(default_factory=list)   # (node, idx_prev, idx_next, delay)
    oneofs: t.List[dict] = field(default_factory=list)  # per evaluated one-of: consumer, kw, tried, winner
    silent: t.Set[str] = field(default_factory=set)     # observables the reference does not fix
    requested: t.Dict[str, t.Set[tuple]] = field(default_factory=dict)  # node -> scopes it was demanded from


REC = 'REC'


def is_rec(v: t.Any) -> bool:
    return isinstance(v, tuple) and len(v) == 2 and v[0] == REC


class Ref:
    def __init__(self, spec: dict, plan: dict, inputs: t.Optional[dict] = None) -> None:
        self.spec, self.plan = spec, plan
        self.inputs = dict(inputs) if inputs is not None else {'x': 1}
        self.nodes = spec['nodes']
        self.deps = S.static_deps(spec)
        self.anc = {n: S.ancestors(self.deps, n) for n in self.nodes}
        self.memo: t.Dict[str, tuple] = {}
        self.count: t.Dict[str, int] = {}
        self.execs: t.Dict[str, int] = {}
        self.add: t.Dict[str, t.Any] = {}
        self.inv: t.List[Inv] = []
        self.defaults: t.List[tuple] = []
        self.tags: t.Set[str] = set()
        self.gaps: t.List[tuple] = []
        self.oneofs: t.List[dict] = []
        self.silent: t.Set[str] = set()
        self.frames: t.List[t.Set[str]] = [set()]
        self.maybe: t.Set[str] = set()
        self.scope: t.List[tuple] = []
        self.requested: t.Dict[str, t.Set[tuple]] = {}
        self.rec_of: t.Dict[str, tuple] = {}
        self.failed_frames: t.List[tuple] = []
        self.own_failures: t.Set[str] = set()
        self.exec_no = 0
        for n, arg in S.rec_marks(spec):
            self.rec_of[arg['dest']] = (arg['start'], arg['max'])
        self.consumers: t.Dict[str, t.List[tuple]] = {}
        for n, nd in self.nodes.items():
            for role, m, kw in S.refs(nd):
                self.consumers.setdefault(m, []).append((role, n))

    # ------------------------------------------------------------------ plan / invocation
    def _token(self, n: str) -> t.Tuple[int, str]:
        i = self.count.get(n, 0)
        self.count[n] = i + 1
        p = self.plan.get(n)
        return i, (p[min(i, len(p) - 1)] if p else 'ok')

    def _invoke(self, n: str, kwargs: dict) -> tuple:
        nd = self.nodes[n]
        attempts = nd.get('attempts') or 1
        delay = nd.get('delay') or 0
        exc_names = nd.get('exceptions')
        catch = set().union(*(EXC_MATCH[e] for e in exc_names)) if exc_names else {'E1', 'E2', 'E3'}
        epoch = self.execs.get(n, 0)
        self.execs[n] = epoch + 1
        self.exec_no += 1
        a = 0
        while True:
            a += 1
            i, oc = self._token(n)
            self.inv.append(Inv(n, i, dict(kwargs), a, epoch, oc, self.exec_no))
            val = (n, tuple(sorted(kwargs.items(), key=lambda kv: kv[0])))
            if oc == 'ok':
                return ('ok', val)
            if oc == 'none':
                return ('ok', None)
            if oc == 'zero':
                return ('ok', 0)
            if oc == 'unhashable':
                return ('ok', ['a'])
            if oc == 'ambig':
                from mc import world as _W
                return ('ok', _W.Ambig(val))
            if oc == 'excval':
                from mc import world as _W
                self.tags.add('value.exception-instance')
                return ('ok', _W.ExcValue(n, val))
            if oc.startswith('label:'):
                return ('ok', oc[6:])
            if oc == 'next':
                return ('ok', (REC, ('it', n, i)))
            if oc == 'next0':
                return ('ok', (REC, 0))
            if oc.startswith('raise:'):
                cls = oc[6:]
                if cls == 'Fatal':
                    return ('fail', frozenset({('fatal', n, i)}))
                if cls in catch and a < attempts:
                    self.gaps.append((n, i, i + 1, delay))
                    continue
                if nd.get('use_default'):
                    self.defaults.append((n, dict(kwargs), False))
                    if nd.get('default_raises'):
                        # get_default itself raises: the node has no value; its failure is the node's failure
                        self.tags.add('default-raises')
                        self.own_failures.add(n)
                        return ('fail', frozenset({('node', n, i)}))
                    return ('ok', ('default', n, tuple(sorted(kwargs.items(), key=lambda kv: kv[0]))))
                self.own_failures.add(n)
                return ('fail', frozenset({('node', n, i)}))
            raise AssertionError(oc)

    # ------------------------------------------------------------------ demand
    def _touch(self, n: str) -> None:
        self.frames[-1].add(n)
        self.requested.setdefault(n, set()).add(tuple(s for s in self.scope if s[0] != 'rec'))

    def need(self, n: str) -> tuple:
        self._touch(n)
        if n in self.memo:
            return self.memo[n]
        nd = self.nodes[n]
        kwargs: dict = {}
        fails: t.Set[tuple] = set()
        if n != self.spec['input'] and not any(p[1] != 'plain' for p in nd['params']):
            # a node that declares no marks is linked to the input node implicitly (C15): it runs after it, without arguments
            self.tags.add('markless-node')
            r0 = self.need_final(self.spec['input'])
            if r0[0] != 'ok':
                fails |= r0[1]
        for kw, kind, arg in nd['params']:
            if kind == 'plain':
                continue
            r = self.eval_mark(n, kw, kind, arg)
            if r[0] == 'ok':
                kwargs[kw] = r[1]
            else:
                fails |= r[1]
        if n == self.spec['input']:
            kwargs.update(self.inputs)
        if n in self.add:
            kwargs['additional_data'] = self.add[n]
        res = ('fail', frozenset(fails)) if fails else self._invoke(n, kwargs)
        if res[0] == 'fail':
            kinds = [s[0] for s in self.scope]
            if kinds:
                self.tags.add('fail-in:' + '/'.join(kinds))
        self.memo[n] = res
        return res

    def need_final(self, m: str) -> tuple:
        """need(m), resolving recurrence if m is a recurrent destination."""
        if m in self.rec_of and m in self.memo:
            self._touch(m)
            return self.memo[m]
        r = self.need(m)
        if m not in self.rec_of:
            return r
        start, mx = self.rec_of[m]
        region = {x for x in self.nodes if (x == start or start in self.anc[x]) and (x == m or x in self.anc[m])}
        k = 0
        while r[0] == 'ok' and is_rec(r[1]):
            self.tags.add('rec.iterated')
            if region - {m}:
                self.tags.add('rec.reexecutes-other-nodes')
            if k == mx:
                nd = self.nodes[m]
                self.tags.add('rec.exhausted')
                if nd.get('use_default'):
                    last = [x for x in self.inv if x.node == m][-1]
                    last_kwargs = last.kwargs
                    self.defaults.append((m, dict(last_kwargs), True))
                    if nd.get('default_raises'):
                        self.tags.add('default-raises')
                        r = ('fail', frozenset({('node', m, last.idx)}))
                    else:
                        r = ('ok', ('default', m, tuple(sorted(last_kwargs.items(), key=lambda kv: kv[0]))))
                else:
                    self.own_failures.add(m)        # the destination itself fails (exhausted, no default)
                    r = ('fail', frozenset({'rec'}))
                break
            k += 1
            for x in self.nodes:
                if x not in region and (self.deps[x] & (region - {m})):
                    self.tags.add('rec.outside-reader')
                    self.silent.add('value')
            for x in region:
                self.memo.pop(x, None)
            self.add[start] = r[1][1]
            self.scope.append(('rec', m, k))
            r = self.need(m)
            self.scope.pop()
        self.memo[m] = r
        return r

    def eval_mark(self, consumer: str, kw: str, kind: str, arg: t.Any) -> tuple:
        if kind == 'in':
            return self.need_final(arg)
        if kind == 'rec':
            return self.need_final(arg['dest'])
        if kind == 'switch':
            self.tags.add('switch')
            r = self.need_final(arg['switch'])
            if r[0] == 'fail':
                return r
            cases = {l: c for l, c in arg['cases']}
            try:
                known = r[1] in cases
            except TypeError:
                known = False
            if not known:
                self.tags.add('switch.unknown-label')
                return ('fail', frozenset({'nolabel'}))
            sel = cases[r[1]]
            self.scope.append(('switch', arg.get('name') or f'{consumer}.{kw}'))
            rr = self.need_final(sel)
            self.scope.pop()
            return rr
        if kind == 'oneof':
            self.tags.add('oneof')
            rec = dict(consumer=consumer, kw=kw, name=f'{consumer}.{kw}', candidates=list(arg), tried=[], winner=None)
            self.oneofs.append(rec)
            common: t.Optional[t.Set[tuple]] = None
            for idx, c in enumerate(arg):
                self.scope.append(('oneof', f'{consumer}.{kw}', idx))
                self.frames.append(set())
                r = self.need_final(c)
                fr = self.frames.pop()
                self.scope.pop()
                rec['tried'].append(c)
                rec.setdefault('causes', []).append(sorted(map(repr, r[1])) if r[0] == 'fail' else None)
                rec.setdefault('body_failed', []).append(
                    r[0] == 'fail' and all(isinstance(c_, tuple) and c_[0] in ('node', 'fatal') for c_ in r[1]))
                if r[0] == 'ok':
                    self.frames[-1] |= fr
                    rec['winner'] = c
                    if r[1] is None:
                        self.tags.add('oneof.candidate-none')
                    return r
                self.maybe |= fr
                self.failed_frames.append((('oneof', f'{consumer}.{kw}', idx), set(fr), c))
                if any(s_[0] == 'oneof' for s_ in self.scope):
                    # contained by this one-of, but evaluated inside a candidate of an enclosing/downstream one-of
                    self.tags.add('oneof.candidate-failed-inside-other-candidate')
                if any(isinstance(c_, tuple) and c_[0] == 'fatal' for c_ in r[1]):
                    # a BaseException outside Exception is not a candidate failure: it propagates
                    self.tags.add('oneof.fatal-propagates')
                    return ('fail', frozenset(c_ for c_ in r[1] if isinstance(c_, tuple) and c_[0] == 'fatal'))
                self.tags.add('oneof.candidate-failed')
                common = set(r[1]) if common is None else (common & set(r[1]))
            self.tags.add('oneof.all-failed')
            return ('fail', frozenset({'oneof'}) | frozenset(common or ()))
        raise AssertionError(kind)

    # ------------------------------------------------------------------ entry
    def run(self) -> RefResult:
        r = self.need_final(self.spec['output'])
        outcome = ('value', r[1]) if r[0] == 'ok' else ('fail', r[1])
        touched = set(self.frames[0]) | self.maybe
        certain = set(self.frames[0]) if r[0] == 'ok' else set()
        for n, scopes in self.requested.items():
            if len({tuple(x[:2] for x in sc) for sc in scopes}) > 1:
                self.tags.add('node-requested-from-two-scopes')
        def oneof_ids(sc: tuple) -> t.Set[tuple]:
            return {x[:3] for x in sc if x[0] == 'oneof'}
        for n in self.own_failures:
            scopes = self.requested.get(n, set())
            if any(not oneof_ids(sc) for sc in scopes) and any(oneof_ids(sc) for sc in scopes):
                # a node the main pipeline needs, which is also inside a one-of candidate's sub-pipeline, fails
                self.tags.add('oneof.required-node-fails-also-inside-candidate')
        for scope_id, touched_nodes, cand in self.failed_frames:
            cone = {cand} | self.anc[cand]
            failing = {f for f in self.own_failures if f in cone}
            for n in touched_nodes:
                # the engine cancels the in-flight node n only if the failed candidate's launch loop wakes up while n is
                # still running: some node of the candidate is a direct consumer of the failing node and does not wait for n
                relay = any(self.deps[r] & (failing - {n}) and n != r and n not in self.anc[r] for r in cone)
                if not relay:
                    continue
                others = [sc for sc in self.requested.get(n, set()) if scope_id not in sc]
                if others and all(oneof_ids(sc) for sc in self.requested.get(n, set())) \
                        and any({x[1] for x in oneof_ids(sc)} - {scope_id[1]} for sc in others):
                    # a node needed only inside candidates, by a failed candidate and by a candidate of another one-of
                    self.tags.add('oneof.failed-candidate-shares-private-node')
                if others and all(oneof_ids(sc) for sc in self.requested.get(n, set())) \
                        and any(any(x[1] == scope_id[1] and x[2] > scope_id[2] for x in oneof_ids(sc)) for sc in others):
                    # ... and by a later candidate of the same one-of
                    self.tags.add('oneof.later-candidate-shares-private-node-with-failed-one')
        if 'rec.iterated' in self.tags:
            for dest, (start, mx) in self.rec_of.items():
                region = {x for x in self.nodes if (x == start or start in self.anc[x]) and (x == dest or x in self.anc[dest])}
                users = {c for role, c in self.consumers.get(dest, [])}
                for n in region | users:
                    if len({tuple(x[:2] for x in sc) for sc in self.requested.get(n, set())}) > 1:
                        # a node of a re-iterated region is demanded from two scopes (main pipeline + case / candidate sub-pipeline)
                        self.tags.add('rec.region-node-requested-from-two-scopes')
        values = {n: v[1] for n, v in self.memo.items() if v[0] == 'ok'}
        return RefResult(outcome=outcome, invocations=self.inv, certain=certain, touched=touched,
                         defaults=self.defaults, tags=self.tags | S.static_tags(self.spec) | structure_tags(self.spec),
                         values=values, gaps=self.gaps, oneofs=self.oneofs, silent=self.silent,
                         requested=self.requested)


def structure_tags(spec: dict) -> t.Set[str]:
    """Static nesting tags: which construct contains which."""
    tags: t.Set[str] = set()
    deps = S.static_deps(spec)
    nodes = spec['nodes']
    roles: t.Dict[str, list] = {}
    for n, nd in nodes.items():
        for role, m, kw in S.refs(nd):
            roles.setdefault(m, []).append((role, n))

    def cone(c: str) -> t.Set[str]:
        return {c} | S.ancestors(deps, c)

    regions = [(arg['dest'], S.rec_region(spec, deps, arg['start'], arg['dest'])) for _, arg in S.rec_marks(spec)]
    for i, (d1, r1) in enumerate(regions):
        for d2, r2 in regions[i + 1:]:
            if d1 != d2 and r1 & r2 and not (r1 <= r2 or r2 <= r1):
                tags.add('rec.overlapping-regions')
    for n, nd in nodes.items():
        for kw, kind, arg in nd['params']:
            if kind == 'rec':
                region = S.rec_region(spec, deps, arg['start'], arg['dest'])
                for x in region:
                    for p in nodes[x]['params']:
                        if p[1] in ('switch', 'oneof', 'rec') and not (x == n):
                            tags.add('rec.contains-' + p[1])
                if len(roles.get(arg['dest'], [])) > 1:
                    tags.add('rec.dest-multi-consumer')
                for x in nodes:
                    if x not in region and deps[x] & (region - {arg['dest']}):
                        tags.add('rec.has-outside-reader')
            if kind == 'oneof':
                for c in arg:
                    for x in cone(c):
                        for p in nodes[x]['params']:
                            if p[1] in ('switch', 'oneof', 'rec'):
                                tags.add('oneof.contains-' + p[1])
            if kind == 'switch':
                for _, c in arg['cases']:
                    for x in cone(c):
                        for p in nodes[x]['params']:
                            if p[1] in ('switch', 'oneof', 'rec'):
                                tags.add('switch.case-contains-' + p[1])
                    if any(r in ('in', 'recdest', 'cand') for r, _ in roles.get(c, [])):
                        tags.add('switch.case-also-direct')
                    if sum(1 for r, _ in roles.get(c, []) if r == 'case') > 1:
                        tags.add('switch.case-in-two-switches')
    return tags


def evaluate(spec: dict, plan: dict, inputs: t.Optional[dict] = None) -> RefResult:
    return Ref(spec, plan, inputs).run()
