"""Monitors: pure functions from one recorded execution (+ reference result) to violations
(DESIGN 2.8). They use only observables available through the public API: node bodies, event
managers, artifact store, PipelineResult, asyncio.all_tasks. Each returns a list of
(symptom, detail) pairs; the caller attributes them to a property."""
import typing as t

from mc import spec as S
from mc import world as W
from mc.ref import REC
from mc.ref import RefResult

V = t.Tuple[str, str]


def _engine_errors():
    from ml_pipeline_engine.dag.errors import OneOfDoesNotHaveResultError
    from ml_pipeline_engine.dag.errors import RecurrentSubgraphDoesNotHaveResultError
    return OneOfDoesNotHaveResultError, RecurrentSubgraphDoesNotHaveResultError


def token(e: BaseException) -> t.Any:
    oneof, rec = _engine_errors()
    if isinstance(e, (W.E1, W.E2, W.E3)) and len(e.args) == 2:
        return ('node', e.args[0], e.args[1])
    if isinstance(e, W.Fatal) and len(e.args) == 2:
        return ('fatal', e.args[0], e.args[1])
    if isinstance(e, oneof):
        return 'oneof'
    if isinstance(e, rec):
        return 'rec'
    return 'other:' + type(e).__name__


def norm(v: t.Any) -> t.Any:
    """Engine value -> comparable form shared with the reference (Recurrent -> (REC, data))."""
    tn = type(v).__name__
    if tn == 'Recurrent' and hasattr(v, 'data'):
        return (REC, norm(v.data))
    if isinstance(v, tuple):
        return tuple(norm(x) for x in v)
    if isinstance(v, dict):
        return {k: norm(x) for k, x in v.items()}
    if isinstance(v, W.Opaque):
        return '@opaque'
    if isinstance(v, W.Ambig):
        return ('AMBIG', norm(v.payload))
    if isinstance(v, W.ExcValue):
        return ('EXCVALUE', norm(tuple(v.args)))
    if isinstance(v, BaseException):
        return ('EXC', type(v).__name__, tuple(map(repr, v.args)))
    return v


def first_diff(got: t.Any, exp: t.Any) -> t.Tuple[t.Any, t.Any]:
    """Innermost first position where two normalised values differ."""
    if isinstance(got, tuple) and isinstance(exp, tuple) and len(got) == len(exp):
        for g, e in zip(got, exp):
            if g != e:
                return first_diff(g, e)
    if isinstance(got, dict) and isinstance(exp, dict) and set(got) == set(exp):
        for k in got:
            if got[k] != exp[k]:
                return first_diff(got[k], exp[k])
    return got, exp


def contains_bad(v: t.Any) -> t.Optional[str]:
    """Does a value (recursively through provenance) contain an exception instance or a Recurrent marker?"""
    tn = type(v).__name__
    if isinstance(v, W.ExcValue):
        return None         # an exception instance a body RETURNED as its value: a legitimate value
    if isinstance(v, W.Ambig):
        return contains_bad(v.payload)
    if isinstance(v, BaseException):
        return 'exception-as-value'
    if tn == 'Recurrent' and hasattr(v, 'data'):
        return 'recurrent-as-value'
    if isinstance(v, (tuple, list)):
        for x in v:
            r = contains_bad(x)
            if r:
                return r
    if isinstance(v, dict):
        for x in v.values():
            r = contains_bad(x)
            if r:
                return r
    return None


class Trace:
    """Indexed view of one run's part of the log."""

    def __init__(self, x, rid: int = 0) -> None:
        self.x = x
        self.rid = rid
        self.starts: t.List[tuple] = []     # (pos, node, idx, kwargs, t)
        self.ends: t.Dict[tuple, tuple] = {}  # (node, idx) -> (pos, oc, t)
        self.cancelled: t.Set[tuple] = set()
        self.events: t.List[tuple] = []     # (pos, kind, node_id, payload, mgr, t)
        self.saves: t.List[tuple] = []      # (pos, node_id, value)  -- save() ENTERED
        self.saved_done: t.Dict[str, int] = {}   # node_id -> number of save() calls that completed
        self.defaults: t.List[tuple] = []   # (pos, node, kwargs)
        self.returned_pos: t.Optional[int] = None
        self.cancel_pos: t.Optional[int] = None
        for pos, e in enumerate(x.log):
            k = e[0]
            if k in ('deliver',):
                continue
            if e[1] != rid:
                continue
            if k == 'start':
                self.starts.append((pos, e[2], e[3], e[4], e[5]))
            elif k == 'end':
                self.ends[(e[2], e[3])] = (pos, e[4], e[5])
            elif k == 'cancelled':
                self.cancelled.add((e[2], e[3]))
            elif k == 'event':
                self.events.append((pos, e[2], e[3], e[4], e[5], e[6]))
            elif k == 'save':
                self.saves.append((pos, e[2], e[3]))
            elif k == 'saved':
                self.saved_done[e[2]] = self.saved_done.get(e[2], 0) + 1
            elif k == 'default':
                self.defaults.append((pos, e[2], e[3]))
            elif k == 'returned':
                self.returned_pos = pos
            elif k == 'cancel':
                self.cancel_pos = pos
        self.outcome = x.outcomes[rid]

    def count(self) -> t.Dict[str, int]:
        c: t.Dict[str, int] = {}
        for _, n, _, _, _ in self.starts:
            c[n] = c.get(n, 0) + 1
        return c


# ------------------------------------------------------------------------------- outcome

def outcome_class(x, rid: int = 0, ref: t.Optional[RefResult] = None) -> tuple:
    """Schedule-independent summary of what the caller observes. With several concurrent failures any
    accepted cause may be reported (C05), so accepted errors form one class."""
    if x.status != 'done':
        return (x.status,)
    oc = x.outcomes[rid]
    if oc is None:
        return ('pending',)
    if oc[0] == 'value':
        return ('value', repr(norm(oc[1])))
    if oc[0] == 'error':
        if ref is not None and ref.outcome[0] == 'fail' and token(oc[1]) in ref.outcome[1]:
            return ('error', 'accepted-cause')
        return ('error', repr(token(oc[1])))
    if oc[0] == 'raised':
        if ref is not None and ref.outcome[0] == 'fail' and token(oc[1]) in ref.outcome[1]:
            return ('error', 'accepted-cause')
        return ('raised', repr(token(oc[1])))
    return oc


def m_termination(x, ref: t.Optional[RefResult] = None, rid: int = 0) -> t.List[V]:
    if x.status == 'deadlock':
        return [('deadlock', f'loop idle, nothing outstanding, run pending; pending tasks: {x.diag}')]
    if x.status == 'livelock':
        return [('livelock', f'more than {x.steps} loop steps')]
    return []


def m_outcome(x, ref: RefResult, rid: int = 0, strict_error: bool = True) -> t.List[V]:
    """Verdict, value and error vs the reference (C01 / C05)."""
    if x.status != 'done':
        return []
    oc = x.outcomes[rid]
    out: t.List[V] = []
    exp = ref.outcome
    if oc[0] == 'cancelled':
        return [('escaped-cancelled', 'chart.run raised CancelledError although nobody cancelled it')]
    if oc[0] == 'raised':
        tk = token(oc[1])
        if exp[0] == 'fail' and tk in exp[1] and tk[0] == 'fatal':
            return []
        return [('escaped-exception', f'chart.run raised {type(oc[1]).__name__}{oc[1].args!r}; expected {exp!r}')]
    if oc[0] == 'value':
        if exp[0] == 'fail':
            return [('unexpected-success', f'run returned value {norm(oc[1])!r}; reference fails with {sorted(map(repr, exp[1]))}')]
        if 'value' in ref.silent:
            return []
        if norm(oc[1]) != norm(exp[1]):
            bad = contains_bad(oc[1])
            g, e = first_diff(norm(oc[1]), norm(exp[1]))
            if not bad and g is None and e is not None:
                bad = 'none-in-value'
            return [(bad or 'wrong-value', f'run returned {norm(oc[1])!r}; reference value {exp[1]!r}')]
        return []
    # error result
    err = oc[1]
    tk = token(err)
    if exp[0] == 'value':
        return [('unexpected-failure', f'run returned error {type(err).__name__}{err.args!r} ({tk}); reference value {exp[1]!r}')]
    accept = exp[1]
    if any(isinstance(a, tuple) and a[0] == 'fatal' for a in accept) and not (isinstance(tk, tuple) and tk[0] == 'fatal'):
        # a Fatal was required to propagate; an error *result* instead is acceptable only if it is another accepted cause
        pass
    if tk in accept:
        if isinstance(tk, tuple) and tk[0] == 'node':
            inst = [e for (r, n, i, e) in x.world.raised if r == rid and n == tk[1] and i == tk[2]]
            if not any(e is err for e in inst):
                out.append(('error-not-identical', f'reported error {err!r} is not the instance the node raised'))
        return out
    if 'nolabel' in accept and isinstance(err, Exception) and isinstance(tk, str) and tk.startswith('other:'):
        return out
    if strict_error:
        out.append(('wrong-error', f'run returned error {type(err).__name__}{err.args!r} ({tk}); acceptable: {sorted(map(repr, accept))}'))
    return out


# ------------------------------------------------------------------------------- arguments (C03)

def declared_kwargs(spec: dict, n: str) -> t.Set[str]:
    return {kw for kw, kind, _ in spec['nodes'][n]['params'] if kind != 'plain'}


def m_kwargs(x, ref: RefResult, spec: dict, rid: int = 0, inputs: t.Optional[dict] = None) -> t.List[V]:
    """Every body invocation: key set, no failure objects / Recurrent markers, values equal the
    reference values, producers finished before the consumer started."""
    tr = Trace(x, rid)
    out: t.List[V] = []
    refinv = {(i.node, i.idx): i for i in ref.invocations}
    inputs = inputs if inputs is not None else {'x': 1}
    ended_before: t.Dict[str, t.List[int]] = {}
    for (n, i), (pos, oc, _) in tr.ends.items():
        ended_before.setdefault(n, []).append(pos)
    for pos, n, i, kw, _ in tr.starts:
        nd = spec['nodes'].get(n)
        if nd is None:
            continue
        for k, v in kw.items():
            bad = contains_bad(v)
            if bad:
                out.append((bad.replace('-as-value', '-as-kwarg'), f'{n}#{i} received {k}={norm(v)!r}'))
        keys = set(kw)
        exp_keys = declared_kwargs(spec, n)
        if n == spec['input']:
            exp_keys = exp_keys | set(inputs)
        allowed_extra = {'additional_data'} if any(p[0] == 'additional_data' for p in nd['params']) else set()
        if not (exp_keys <= keys and keys <= exp_keys | allowed_extra):
            out.append(('wrong-kwarg-keys', f'{n}#{i} received keys {sorted(keys)}, declared {sorted(exp_keys)}'))
        ri = refinv.get((n, i))
        if ri is not None and 'value' in ref.silent:
            # which iteration's value an outside reader sees is not fixed by the documentation, but a None placeholder for an
            # invalidated result is never acceptable (C03)
            nk = norm(kw)
            for k_, v_ in nk.items():
                if v_ is None and ri.kwargs.get(k_) is not None:
                    out.append(('none-as-kwarg', f'{n}#{i} received {k_}=None (placeholder for an invalidated result); reference {ri.kwargs!r}'))
        if ri is not None and 'value' not in ref.silent:
            if norm(kw) != norm(ri.kwargs) and not any(contains_bad(v) for v in kw.values()):
                nk = norm(kw)
                g, e = first_diff(nk, norm(ri.kwargs))
                if g is None and e is not None:
                    out.append(('none-as-kwarg', f'{n}#{i} received a None placeholder (possibly nested) in {nk!r}; reference {ri.kwargs!r}'))
                else:
                    out.append(('wrong-kwarg-value', f'{n}#{i} received {nk!r}; reference {ri.kwargs!r}'))
        for p_kw, kind, arg in nd['params']:
            if kind == 'in':
                if not any(p < pos for p in ended_before.get(arg, [])):
                    out.append(('started-before-input-final', f'{n}#{i} started before {arg} finished'))
    return out


# ------------------------------------------------------------------------------- counts (C04 / C09 / C10 / C11)

def m_counts(x, ref: RefResult, spec: dict, rid: int = 0) -> t.List[V]:
    if x.status != 'done' or 'value' in ref.silent:
        return m_counts_upper(x, ref, spec, rid, forbidden_only='value' in ref.silent)
    tr = Trace(x, rid)
    out: t.List[V] = []
    got = tr.count()
    exp: t.Dict[str, int] = {}
    for i in ref.invocations:
        exp[i.node] = exp.get(i.node, 0) + 1
    for n, c in got.items():
        if n not in spec['nodes']:
            continue
        if n not in ref.touched:
            out.append(('forbidden-exec', f'{n} executed {c}x; the reference never demands it'))
        elif c > exp.get(n, 0):
            out.append((_dup_symptom(spec, n) if c > 1 else 'dup-exec', f'{n} executed {c}x; reference {exp.get(n, 0)}x'))
    if ref.outcome[0] == 'value' and x.outcomes[rid] is not None and x.outcomes[rid][0] == 'value':
        for n in ref.certain:
            if got.get(n, 0) < exp.get(n, 0):
                out.append(('missing-exec', f'{n} executed {got.get(n, 0)}x; reference {exp.get(n, 0)}x'))
    return out


def m_counts_upper(x, ref: RefResult, spec: dict, rid: int = 0, forbidden_only: bool = False) -> t.List[V]:
    tr = Trace(x, rid)
    out: t.List[V] = []
    exp: t.Dict[str, int] = {}
    for i in ref.invocations:
        exp[i.node] = exp.get(i.node, 0) + 1
    for n, c in tr.count().items():
        if n not in spec['nodes']:
            continue
        if n not in ref.touched:
            out.append(('forbidden-exec', f'{n} executed {c}x; the reference never demands it'))
        elif c > exp.get(n, 0) and not forbidden_only:
            out.append((_dup_symptom(spec, n) if c > 1 else 'dup-exec', f'{n} executed {c}x; reference {exp.get(n, 0)}x'))
    return out


def _dup_symptom(spec: dict, n: str) -> str:
    """A node that lies in no recurrent region has no legitimate reason at all to run more often than the reference
    says (no re-iteration re-arms it): a sharper symptom than 'dup-exec', kept apart so that findings about eager
    re-execution INSIDE a re-iterated region do not cover it."""
    marks = S.rec_marks(spec)
    if not marks:
        return 'dup-exec'
    deps = S.static_deps(spec)
    for _, arg in marks:
        if n in S.rec_region(spec, deps, arg['start'], arg['dest']):
            return 'dup-exec'
    return 'dup-exec-outside-rec'


def m_oneof_order(x, ref: RefResult, spec: dict, rid: int = 0) -> t.List[V]:
    """Candidate i+1 (and nodes only it needs) starts only after a required node of candidate i
    has failed for good."""
    tr = Trace(x, rid)
    out: t.List[V] = []
    deps = S.static_deps(spec)
    cone = {n: {n} | S.ancestors(deps, n) for n in spec['nodes']}
    fail_pos: t.Dict[str, int] = {}
    last_inv: t.Dict[str, int] = {}
    for i in ref.invocations:
        last_inv[i.node] = max(last_inv.get(i.node, -1), i.idx)
    for (n, i), (pos, oc, _) in tr.ends.items():
        if oc.startswith('raise:'):
            nd = spec['nodes'].get(n, {})
            if not nd.get('use_default'):
                fail_pos[n] = max(fail_pos.get(n, -1), pos)
    for o in ref.oneofs:
        cands = o['candidates']
        for j in range(1, len(cands)):
            # nodes demanded only from inside candidate j of this one-of
            private = {n for n in cone[cands[j]]
                       if ref.requested.get(n) and all(('oneof', o['name'], j) in sc for sc in ref.requested[n])}
            for pos, n, i, kw, _ in tr.starts:
                if n in private:
                    earlier_fail = [p for m, p in fail_pos.items() if m in cone[cands[j - 1]] and p < pos]
                    # only decidable from body events when the previous candidate failed because a body raised
                    bf = o.get('body_failed', [])
                    engine_fail = not (j - 1 < len(bf) and bf[j - 1])
                    if not earlier_fail and not engine_fail:
                        out.append(('candidate-started-early',
                                    f'{n}#{i} (needed only by candidate {cands[j]}) started before candidate {cands[j-1]} failed'))
    return out


def m_anomalies(x, rid: t.Optional[int] = None) -> t.List[V]:
    """Harness-side anomalies of collaborator identity (one manager / store instance serving two runs)."""
    return [(e[2], e[3]) for e in x.log if e[0] == 'anomaly' and (rid is None or e[1] == rid)]


# ------------------------------------------------------------------------------- C13

def m_leftovers(x, rid: int = 0) -> t.List[V]:
    out: t.List[V] = []
    if x.status != 'done':
        return out
    if x.leftover:
        out.append(('leftover-tasks', f'tasks still pending after run returned: {x.leftover}'))
    if x.late:
        out.append(('late-activity', f'started after run returned: {[(e[0], e[2], e[3]) for e in x.late][:4]}'))
    else:
        # also while the loop was still draining its ready queue: anything of this run that STARTS after its 'returned' mark
        ret = None
        for pos, e in enumerate(x.log):
            if e[0] == 'returned' and e[1] == rid:
                ret = pos
        if ret is not None:
            after = [e for e in x.log[ret + 1:] if e[0] in ('start', 'event', 'save', 'default') and e[1] == rid]
            if after:
                out.append(('late-activity', f'started after run returned (while the loop drained): {[(e[0], e[2], e[3]) for e in after][:4]}'))
    if x.drain_steps >= 1000:
        out.append(('unbounded-drain', 'ready queue not empty 1000 steps after run returned'))
    return out


def m_cancel(x, rid: int = 0) -> t.List[V]:
    """Caller cancelled the run: it must surface as CancelledError only (or the run had already finished)."""
    out: t.List[V] = []
    if x.status != 'done':
        return [('cancel-hang', f'cancelled run never finished ({x.status})')]
    oc = x.outcomes[rid]
    if oc[0] == 'raised':
        # a BaseException raised by a node body legitimately propagates, cancelled or not
        if not any(e is oc[1] for (_, _, _, e) in x.world.raised if isinstance(e, W.Fatal)):
            out.append(('cancel-wrong-exception', f'canceller saw {type(oc[1]).__name__}'))
    return out


# ------------------------------------------------------------------------------- C14

def m_events(x, ref: t.Optional[RefResult], spec: dict, rid: int = 0, nmgr: int = 1, partial_first: t.Sequence[str] = ()) -> t.List[V]:
    tr = Trace(x, rid)
    out: t.List[V] = []
    if x.status != 'done' or tr.cancel_pos is not None:
        return out
    oc = tr.outcome
    if oc is None or oc[0] in ('cancelled', 'raised'):
        return out
    result_obj = oc[2]
    run_failed = oc[0] == 'error'
    for mgr in range(nmgr):
        if partial_first and mgr == 0:
            continue        # the first manager lacks hooks by construction; the complete one behind it is the observer
        evs = [e for e in tr.events if e[4] == mgr]
        kinds = [e[1] for e in evs]
        if kinds.count('pipeline_start') != 1 or kinds[0] != 'pipeline_start':
            out.append(('events-pipeline-start', f'mgr{mgr}: {kinds[:3]}'))
        if kinds.count('pipeline_complete') != 1 or kinds[-1] != 'pipeline_complete':
            out.append(('events-pipeline-complete', f'mgr{mgr}: pipeline_complete x{kinds.count("pipeline_complete")}, last={kinds[-1] if kinds else None}'))
        else:
            if evs[-1][3] is not result_obj:
                out.append(('events-result-mismatch', 'on_pipeline_complete carried a different PipelineResult than run returned'))
        if evs:
            first_pos, last_pos = evs[0][0], evs[-1][0]
            for pos, n, i, kw, _ in tr.starts:
                if pos < first_pos:
                    out.append(('events-body-before-start', f'{n}#{i} before on_pipeline_start'))
                if pos > last_pos and kinds[-1] == 'pipeline_complete':
                    out.append(('events-body-after-complete', f'{n}#{i} after on_pipeline_complete'))
        # per node
        per: t.Dict[str, list] = {}
        for e in evs:
            if e[1] in ('node_start', 'node_complete'):
                per.setdefault(e[2], []).append(e)
        for node_id, seq in per.items():
            name = node_id.split('__', 1)[1] if '__' in str(node_id) else node_id
            if name not in spec['nodes']:
                out.append(('events-unknown-node', f'event for {node_id}'))
                continue
            # split into executions
            execs: t.List[list] = []
            for e in seq:
                if e[1] == 'node_start':
                    execs.append([e])
                elif not execs:
                    out.append(('events-complete-without-start', f'{node_id}'))
                    execs.append([e])
                else:
                    execs[-1].append(e)
            # body invocations per execution: those whose start lies between this node_start and the next
            bstarts = [(pos, i) for pos, n, i, kw, _ in tr.starts if n == name]
            for k, ex in enumerate(execs):
                lo = ex[0][0]
                hi = execs[k + 1][0][0] if k + 1 < len(execs) else 10 ** 9
                inv = [(pos, i) for pos, i in bstarts if lo < pos < hi]
                comps = [e for e in ex if e[1] == 'node_complete']
                complete_exec = True
                for pos, i in inv:
                    if (name, i) not in tr.ends or (name, i) in tr.cancelled:
                        complete_exec = False
                forced_default = any(d[0] == name and d[2] for d in (ref.defaults if ref else []))
                if not inv and not forced_default and comps:
                    out.append(('events-complete-without-body', f'{node_id} execution {k}'))
                if inv and complete_exec and not run_failed:
                    last_i = inv[-1][1]
                    last_oc = tr.ends[(name, last_i)][1]
                    nd = spec['nodes'][name]
                    if len(comps) != len(inv):
                        # an execution cut short by a contained failure elsewhere is tolerated only when incomplete
                        in_certain = ref is None or name in ref.certain
                        if in_certain or len(comps) > len(inv):
                            out.append(('events-count', f'{node_id} execution {k}: {len(inv)} attempts, {len(comps)} on_node_complete'))
                    elif comps:
                        final_err = comps[-1][3]
                        produced = not last_oc.startswith('raise:') or (nd.get('use_default') and not nd.get('default_raises'))
                        if produced and final_err is not None:
                            out.append(('events-error-mismatch', f'{node_id}: value produced but last on_node_complete error={final_err!r}'))
                        if not produced:
                            inst = [e for (r, n, i, e) in x.world.raised if r == rid and n == name and i == last_i]
                            if final_err is None or not any(e is final_err for e in inst):
                                out.append(('events-error-mismatch', f'{node_id}: body raised but last on_node_complete error={final_err!r}'))
                        for j, c in enumerate(comps[:-1]):
                            inst = [e for (r, n, i, e) in x.world.raised if r == rid and n == name and i == inv[j][1]]
                            if not any(e is c[3] for e in inst):
                                out.append(('events-error-mismatch', f'{node_id}: attempt {j} on_node_complete error={c[3]!r}'))
                if len(comps) > max(len(inv), 1):
                    out.append(('events-count', f'{node_id} execution {k}: {len(inv)} attempts, {len(comps)} on_node_complete'))
        # a consumer starts only after its producer's successful node_complete
        succ_pos: t.Dict[str, t.List[int]] = {}
        for e in evs:
            if e[1] == 'node_complete' and e[3] is None:
                nm = str(e[2]).split('__', 1)[-1]
                succ_pos.setdefault(nm, []).append(e[0])
        for pos, n, i, kw, _ in tr.starts:
            nd = spec['nodes'].get(n)
            if not nd:
                continue
            for p_kw, kind, arg in nd['params']:
                if kind == 'in' and p_kw in kw and not contains_bad(kw[p_kw]):
                    if not any(p < pos for p in succ_pos.get(arg, [])):
                        out.append(('events-consumer-before-complete', f'{n}#{i} started before on_node_complete({arg}, error=None)'))
    # managers called in registration order
    if nmgr > 1 and not partial_first:
        # per node (and for the pipeline-level events) both managers must observe the same history; the interleaving of
        # events of DIFFERENT nodes may differ between managers when a callback of the first one suspends
        def per_node(m: int) -> dict:
            d: t.Dict[t.Any, list] = {}
            for e in tr.events:
                if e[4] == m:
                    d.setdefault(e[2], []).append((e[1], None if e[3] is None or e[1].startswith('pipeline') else type(e[3]).__name__))
            return d
        if not run_failed and per_node(0) != per_node(1):
            diff = [k for k in set(per_node(0)) | set(per_node(1)) if per_node(0).get(k) != per_node(1).get(k)]
            out.append(('events-managers-differ', f'the two managers observed different histories for {diff[:3]}'))
    if nmgr > 1 and partial_first and not run_failed:
        # the partial manager must still get every hook it does define, with the history the complete manager saw
        def per_node_kinds(m: int) -> dict:
            d: t.Dict[t.Any, list] = {}
            for e in tr.events:
                if e[4] == m and e[1] not in partial_first:
                    d.setdefault(e[2], []).append((e[1], None if e[3] is None or e[1].startswith('pipeline') else type(e[3]).__name__))
            return d
        a, b = per_node_kinds(0), per_node_kinds(1)
        if a != b:
            diff = [k for k in set(a) | set(b) if a.get(k) != b.get(k)]
            out.append(('events-managers-differ', f'the partial manager and the complete one observed different histories for {diff[:3]}'))
    # the context every hook received is the one of this run (the caller's id, input_kwargs, meta; one object per run)
    out += [a for a in m_anomalies(x, rid) if a[0] == 'context-mismatch']
    return out


# ------------------------------------------------------------------------------- C19

def m_saves(x, ref: RefResult, spec: dict, rid: int = 0) -> t.List[V]:
    tr = Trace(x, rid)
    out: t.List[V] = []
    if x.status != 'done':
        return out
    oc = tr.outcome
    per: t.Dict[str, list] = {}
    for pos, node_id, val in tr.saves:
        per.setdefault(node_id, []).append(val)
        bad = contains_bad(val)
        if bad == 'recurrent-as-value':
            out.append(('saved-recurrent', f'{node_id} saved {norm(val)!r}'))
        elif bad == 'exception-as-value':
            out.append(('saved-failure', f'{node_id} saved {norm(val)!r}'))
    if ref.outcome[0] == 'value' and oc is not None and oc[0] == 'value':
        got = tr.count()
        for n in ref.certain:
            if got.get(n, 0) == 0:
                continue
            node_id = None
            for k in per:
                if str(k).split('__', 1)[-1] == n:
                    node_id = k
            vals = per.get(node_id, [])
            if len(vals) != 1:
                out.append(('save-count', f'{n} saved {len(vals)}x'))
            elif tr.saved_done.get(node_id, 0) < 1:
                out.append(('save-lost', f'{n}: save() was entered but never completed (cancelled while the store was writing); '
                                         'the run succeeded without this artifact'))
            elif n in ref.values and 'value' not in ref.silent and norm(vals[0]) != norm(ref.values[n]):
                out.append(('save-value', f'{n} saved {norm(vals[0])!r}; consumers received {ref.values[n]!r}'))
        for k in per:
            nm = str(k).split('__', 1)[-1]
            if nm not in spec['nodes']:
                out.append(('save-unknown-node', f'{k}'))
    return out


# ------------------------------------------------------------------------------- C12

def m_retry(x, ref: RefResult, spec: dict, rid: int = 0) -> t.List[V]:
    """Per-attempt invocation log, virtual-time gaps and get_default calls vs the reference."""
    tr = Trace(x, rid)
    out: t.List[V] = []
    if x.status != 'done':
        return out
    oc = tr.outcome
    complete = oc is not None and oc[0] == 'value'
    by_node: t.Dict[str, list] = {}
    for pos, n, i, kw, tm in tr.starts:
        by_node.setdefault(n, []).append((i, kw, tm))
    exp_by_node: t.Dict[str, list] = {}
    for inv in ref.invocations:
        exp_by_node.setdefault(inv.node, []).append(inv)
    for n, got in by_node.items():
        exp = exp_by_node.get(n, [])
        if len(got) > len(exp):
            out.append(('retry-too-many-attempts', f'{n} invoked {len(got)}x; reference {len(exp)}x'))
        for (i, kw, tm), inv in zip(got, exp):
            if norm(kw) != norm(inv.kwargs):
                out.append(('retry-kwargs-differ', f'{n}#{i} received {norm(kw)!r}; reference {inv.kwargs!r}'))
    if complete:
        for n, exp in exp_by_node.items():
            if n in ref.certain and len(by_node.get(n, [])) < len(exp):
                out.append(('retry-too-few-attempts', f'{n} invoked {len(by_node.get(n, []))}x; reference {len(exp)}x'))
    # consecutive attempts of one execution are invoked with identical arguments, whatever the reference says about them
    kw_of = {(s[1], s[2]): norm(s[3]) for s in tr.starts}
    for (n, i0, i1, delay) in ref.gaps:
        if (n, i0) in kw_of and (n, i1) in kw_of and kw_of[(n, i0)] != kw_of[(n, i1)]:
            out.append(('retry-kwargs-change-between-attempts', f'{n}: attempt {i0} got {kw_of[(n, i0)]!r}, attempt {i1} got {kw_of[(n, i1)]!r}'))
    # gaps between attempt i's end and attempt i+1's start
    for (n, i0, i1, delay) in ref.gaps:
        if (n, i0) in tr.ends and any(s[1] == n and s[2] == i1 for s in tr.starts):
            p_end, _, t_end = tr.ends[(n, i0)]
            p_start, t_start = [(s[0], s[4]) for s in tr.starts if s[1] == n and s[2] == i1][0]
            # other timers (another node's retry delay) fired in between advance the clock as well: then only 'at least delay'
            fired = sum(1 for e in x.log[p_end:p_start] if e[0] == 'deliver' and str(e[1]).startswith('timer@'))
            own = 1 if delay > 0 else 0
            gap = t_start - t_end
            if (fired <= own and abs(gap - delay) > 1e-9) or gap < delay - 1e-9:
                out.append(('retry-wrong-delay', f'{n}: attempt {i1} started {t_start - t_end:g}s after attempt {i0} failed; configured delay {delay:g}s'))
    # defaults
    got_def = [(d[1], norm(d[2])) for d in tr.defaults]
    exp_def = [(d[0], d[1]) for d in ref.defaults]
    if complete:
        if sorted(map(repr, got_def)) != sorted(map(repr, exp_def)):
            out.append(('retry-default-calls', f'get_default calls {got_def!r}; reference {exp_def!r}'))
    else:
        for g in got_def:
            if g not in exp_def:
                out.append(('retry-default-calls', f'unexpected get_default call {g!r}; reference {exp_def!r}'))
    return out
