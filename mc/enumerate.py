"""Bounded-exhaustive program and plan enumeration (DESIGN 2.6)."""
import functools
import itertools
import json
import typing as t

from mc import spec as S


def _param_options(names: t.List[str], k: int, kinds: t.Sequence[str], rec_max: int) -> t.List[tuple]:
    earlier = names[:k]
    inp = names[0]
    opts: t.List[tuple] = [('in', e) for e in earlier]
    if 'oneof' in kinds:
        for a, b in itertools.permutations([e for e in earlier if e != inp], 2):
            opts.append(('oneof', [a, b]))
    if 'switch' in kinds:
        for s in earlier:
            for a, b in itertools.combinations([e for e in earlier if e != s and e != inp], 2):
                opts.append(('switch', {'switch': s, 'cases': [['a', a], ['b', b]], 'name': f'sw{k}'}))
    if 'rec' in kinds:
        for s, d in itertools.permutations(earlier, 2):
            if d != inp:
                opts.append(('rec', {'start': s, 'dest': d, 'max': rec_max}))
        for d in earlier:
            if d != inp:
                opts.append(('rec', {'start': d, 'dest': d, 'max': rec_max}))   # a polling node: start == destination
    return opts


def _raw_programs(N: int, max_special: int, min_special: int, kinds: t.Sequence[str], rec_max: int,
                  fanin: int = 2) -> t.Iterator[dict]:
    names = [f'n{i}' for i in range(N)]

    def rec_build(k: int, nodes: dict, specials: int) -> t.Iterator[dict]:
        if k == N:
            if specials >= min_special:
                yield nodes
            return
        opts = _param_options(names, k, kinds if specials < max_special else (), rec_max)
        for i1, p1 in enumerate(opts):
            s1 = specials + (p1[0] != 'in')
            seconds: t.List[t.Optional[tuple]] = [None]
            if fanin >= 2:
                seconds += opts[i1 + 1:]
            for p2 in seconds:
                s2 = s1 + (p2 is not None and p2[0] != 'in')
                if s2 > max_special:
                    continue
                if p2 is not None and p1[0] == 'switch' and p2[0] == 'switch':
                    p2 = ('switch', dict(p2[1], name=p2[1]['name'] + 'q'))      # two marks of one consumer: two names
                ps = [['p', p1[0], p1[1]]] + ([['q', p2[0], p2[1]]] if p2 else [])
                yield from rec_build(k + 1, dict(nodes, **{names[k]: {'params': ps}}), s2)

    for nodes in rec_build(1, {names[0]: {'params': [['x', 'plain', None]]}}, 0):
        spec = {'nodes': nodes, 'input': names[0], 'output': names[-1]}
        if not S.well_formed(spec):
            continue
        yield spec


def _canon_key(spec: dict) -> str:
    """Canonical form modulo renaming of interior nodes and parameter order (brute force over
    topological relabelings; N <= 7)."""
    names = list(spec['nodes'])
    inner = names[1:-1]
    best = None
    deps = S.static_deps(spec)
    for perm in itertools.permutations(range(len(inner))):
        ren = {names[0]: 'a', names[-1]: 'z'}
        for new_i, old_i in enumerate(perm):
            ren[inner[old_i]] = f'm{new_i}'
        # relabeling must keep dependency order so that the result is a valid listing
        order = sorted(names, key=lambda n: ren[n])
        pos = {n: i for i, n in enumerate(order)}
        if any(pos[d] >= pos[n] for n in names for d in deps[n]):
            continue
        enc = []
        for n in order:
            ps = []
            for kw, kind, arg in spec['nodes'][n]['params']:
                if kind == 'in':
                    ps.append(('in', ren[arg]))
                elif kind == 'oneof':
                    ps.append(('oneof', tuple(ren[a] for a in arg)))
                elif kind == 'switch':
                    ps.append(('switch', ren[arg['switch']], tuple(sorted(ren[c] for _, c in arg['cases']))))
                elif kind == 'rec':
                    ps.append(('rec', ren[arg['start']], ren[arg['dest']], arg['max']))
                else:
                    ps.append((kind,))
            enc.append((ren[n], tuple(sorted(ps))))
        key = repr(enc)
        if best is None or key < best:
            best = key
    return best or ''


def programs(N: int, max_special: int = 1, min_special: int = 0, kinds: t.Sequence[str] = ('oneof', 'switch', 'rec'),
             rec_max: int = 2, overlap: bool = False, dedupe: bool = True, twice: bool = False) -> t.List[dict]:
    """twice=True: only the role-disjoint programs in which some consumer names one node twice through different edges (a
    switch case / switch node / candidate that it also takes as a direct Input); twice=False: the others."""
    seen: t.Set[str] = set()
    out = []
    for spec in _raw_programs(N, max_special, min_special, kinds, rec_max):
        st = S.static_tags(spec)
        if bool(st) != overlap:
            continue
        if not overlap and S.same_consumer_twice(spec) != twice:
            continue
        if dedupe:
            k = _canon_key(spec)
            if k in seen:
                continue
            seen.add(k)
        out.append(S.normalise(spec))
    return out


@functools.lru_cache(maxsize=None)
def _family_cached(name: str, tier: str) -> str:
    return json.dumps(_family(name, tier))


def family(name: str, tier: str = 'quick') -> t.List[dict]:
    return json.loads(_family_cached(name, tier))


def _family(name: str, tier: str) -> t.List[dict]:
    q = tier == 'quick'
    out: t.List[dict] = []
    if name == 'plain':
        for n in range(2, (5 if q else 6) + 1):
            out += programs(n, 0)
    elif name == 'plain7':
        out += programs(7, 0)
    elif name == 'switch':
        for n in range(4, (5 if q else 6) + 1):
            out += programs(n, 1 if n >= 6 else 2, 1, kinds=('switch',))
    elif name == 'oneof':
        for n in range(4, (5 if q else 6) + 1):
            out += programs(n, 1 if n >= 6 else 2, 1, kinds=('oneof',))
    elif name == 'rec':
        for n in range(3, (5 if q else 6) + 1):
            out += programs(n, 1, 1, kinds=('rec',), rec_max=2 if n <= 5 else 1)
        # max_iterations = 0 (legal: the first Recurrent result already exhausts the subgraph)
        for n in range(3, (4 if q else 5) + 1):
            out += programs(n, 1, 1, kinds=('rec',), rec_max=0)
    elif name == 'mix':
        # every ordered pair of constructs nested one level; role overlaps that have their own families
        # (second consumer of a recurrent destination, outside readers, shared cases) are excluded here
        from mc.ref import structure_tags
        nest = {'rec.contains-switch', 'rec.contains-oneof', 'rec.contains-rec', 'oneof.contains-switch', 'oneof.contains-rec',
                'oneof.contains-oneof', 'switch.case-contains-oneof', 'switch.case-contains-rec',
                'switch.case-contains-switch'}
        excl = {'rec.dest-multi-consumer', 'rec.has-outside-reader', 'switch.case-also-direct',
                'switch.case-in-two-switches'}
        for n in range(4, (5 if q else 6) + 1):
            for sp in programs(n, 2, 2, rec_max=1):
                st = structure_tags(sp)
                if st & nest and not st & excl:
                    out.append(sp)
    elif name == 'oneofx':
        out += oneofx(tier)
    elif name == 'switchx':
        out += switchx(tier)
    elif name == 'recx':
        out += recx(tier)
    elif name == 'twice':
        # a consumer that names one node twice: as a case / the switch node / a candidate AND as a direct Input
        for n in range(4, (5 if q else 6) + 1):
            out += programs(n, 1, 1, kinds=('switch', 'oneof'), twice=True)
        # two switches of one consumer that share the switch node and / or a case
        out += programs(5, 2, 2, kinds=('switch',), twice=True)
    elif name == 'candshared':
        # role overlap of ONE kind: a one-of candidate that another node also takes as a plain Input
        out += [sp for sp in _family('overlap', tier) if S.static_tags(sp) == {'oneof.candidate-shared'}]
    elif name == 'overlap':
        for n in range(3, (4 if q else 5) + 1):
            out += programs(n, 1 if n >= 5 else 2, 0, overlap=True, rec_max=1)
    else:
        raise KeyError(name)
    return out


# ------------------------------------------------------------------------------------ composed one-of family

CAND_SHAPES = ('leaf', 'chain', 'join', 'relay', 'sh', 'sh-join', 'sh-relay')


class _Builder:
    def __init__(self) -> None:
        self.nodes: t.Dict[str, dict] = {'I': {'params': [['x', 'plain', None]]}}
        self.k = 0

    def node(self, prefix: str, *deps: str) -> str:
        self.k += 1
        name = f'{prefix}{self.k}'
        self.nodes[name] = {'params': [[f'p{i}', 'in', d] for i, d in enumerate(deps)]}
        return name

    def shared(self) -> str:
        if 'Sh' not in self.nodes:
            self.nodes['Sh'] = {'params': [['p0', 'in', 'I']]}
        return 'Sh'

    def cand(self, shape: str, base: str = 'I') -> str:
        if shape == 'leaf':
            return self.node('C', base)
        if shape == 'chain':
            return self.node('C', self.node('H', base))
        if shape == 'join':
            return self.node('C', self.node('X', base), self.node('Y', base))
        if shape == 'relay':
            x = self.node('X', base)
            return self.node('C', x, self.node('R', self.node('Y', base)))
        if shape == 'sh':
            return self.node('C', self.shared())
        if shape == 'sh-join':
            return self.node('C', self.shared(), self.node('Y', base))
        if shape == 'sh-relay':
            return self.node('C', self.shared(), self.node('R', self.node('Y', base)))
        raise KeyError(shape)

    def consumer(self, prefix: str, params: t.List[list]) -> str:
        self.k += 1
        name = f'{prefix}{self.k}'
        self.nodes[name] = {'params': params}
        return name

    def spec(self, output: str) -> dict:
        # list nodes in dependency order
        deps = {n: {r[1] for r in S.refs(nd)} for n, nd in self.nodes.items()}
        order: t.List[str] = []
        def visit(n: str) -> None:
            if n in order:
                return
            for d in sorted(deps[n]):
                visit(d)
            order.append(n)
        visit(output)
        return {'nodes': {n: self.nodes[n] for n in order}, 'input': 'I', 'output': output}


def oneofx(tier: str = 'quick') -> t.List[dict]:
    """One-of programs composed from candidate sub-pipeline shapes and consumer topologies (single, sibling,
    sibling with a one-candidate one-of, chained, chained with an outside consumer in both parameter orders,
    nested, main pipeline sharing an ancestor with the candidates)."""
    q = tier == 'quick'
    firsts = CAND_SHAPES
    seconds = ('leaf',) if q else ('leaf', 'chain', 'sh')
    out: t.List[dict] = []
    seen: t.Set[str] = set()

    def emit(b: _Builder, output: str) -> None:
        sp = S.normalise(b.spec(output))
        k = S.canon(sp)
        if k not in seen and S.well_formed(sp) and not S.static_tags(sp):
            seen.add(k)
            out.append(sp)

    for s1 in firsts:
        for s2 in seconds:
            b = _Builder()
            c1, c2 = b.cand(s1), b.cand(s2)
            emit(b, b.consumer('O', [['o', 'oneof', [c1, c2]]]))
            # main pipeline shares the ancestor
            b = _Builder()
            c1, c2 = b.cand(s1), b.cand(s2)
            emit(b, b.consumer('O', [['o', 'oneof', [c1, c2]], ['m', 'in', b.shared()]]))
            # nested: the first one-of's consumer is the first candidate of the outer one
            b = _Builder()
            c1, c2 = b.cand(s1), b.cand(s2)
            n = b.consumer('N', [['o', 'oneof', [c1, c2]]])
            emit(b, b.consumer('O', [['o', 'oneof', [n, b.cand('leaf')]]]))
            # chained: a candidate of the second one-of depends on the first one-of's consumer
            for outside in (None, 'kf', 'fk'):
                b = _Builder()
                c1, c2 = b.cand(s1), b.cand(s2)
                m = b.consumer('M', [['o', 'oneof', [c1, c2]]])
                c3 = b.cand('leaf', m)
                k2 = b.consumer('K', [['o', 'oneof', [c3, b.cand('leaf')]]])
                if outside is None:
                    emit(b, k2)
                elif outside == 'kf':
                    emit(b, b.consumer('G', [['k', 'in', k2], ['f', 'in', m]]))
                else:
                    emit(b, b.consumer('G', [['f', 'in', m], ['k', 'in', k2]]))
        # siblings
        for s3 in (firsts if not q else ('leaf', 'sh', 'sh-join', 'join')):
            for single in (False, True):
                b = _Builder()
                c1, c2 = b.cand(s1), b.cand('leaf')
                c3 = b.cand(s3)
                second = [c3] if single else [c3, b.cand('leaf')]
                emit(b, b.consumer('O', [['o1', 'oneof', [c1, c2]], ['o2', 'oneof', second]]))
    return out


def switchx(tier: str = 'quick') -> t.List[dict]:
    """Switch programs composed from case sub-pipeline shapes and consumer topologies."""
    q = tier == 'quick'
    firsts = CAND_SHAPES
    seconds = ('leaf', 'sh') if q else ('leaf', 'chain', 'sh', 'sh-join')
    out: t.List[dict] = []
    seen: t.Set[str] = set()

    def emit(b: _Builder, output: str) -> None:
        sp = S.normalise(b.spec(output))
        k = S.canon(sp)
        if k not in seen and S.well_formed(sp) and not S.static_tags(sp):
            seen.add(k)
            out.append(sp)

    def sw(name: str, decider: str, c_a: str, c_b: str) -> dict:
        return {'switch': decider, 'cases': [['a', c_a], ['b', c_b]], 'name': name}

    for dec in ('input', 'node', 'shared'):
        for s1 in firsts:
            for s2 in seconds:
                def mk() -> t.Tuple[_Builder, str, str, str]:
                    b = _Builder()
                    d = 'I' if dec == 'input' else (b.node('S', 'I') if dec == 'node' else b.node('S', b.shared()))
                    return b, d, b.cand(s1), b.cand(s2)
                b, d, c1, c2 = mk()
                emit(b, b.consumer('O', [['c', 'switch', sw('sw', d, c1, c2)]]))
                b, d, c1, c2 = mk()
                emit(b, b.consumer('O', [['c', 'switch', sw('sw', d, c1, c2)], ['m', 'in', b.shared()]]))
                # a case that is also consumed directly, in both parameter orders
                b, d, c1, c2 = mk()
                emit(b, b.consumer('O', [['c', 'switch', sw('sw', d, c1, c2)], ['d', 'in', c1]]))
                b, d, c1, c2 = mk()
                emit(b, b.consumer('O', [['d', 'in', c2], ['c', 'switch', sw('sw', d, c1, c2)]]))
                if dec == 'shared' and q:
                    continue
                # two switches on the same decider sharing a case, consumed by two nodes
                b, d, c1, c2 = mk()
                x = b.consumer('X', [['c', 'switch', sw('swx', d, c1, c2)]])
                y = b.consumer('Y', [['c', 'switch', sw('swy', d, c1, b.cand('leaf'))]])
                emit(b, b.consumer('O', [['x_', 'in', x], ['y_', 'in', y]]))
                # two switches sharing a case that is ALSO consumed directly (started outside the switches), with the
                # same decider and with two deciders (so that only one of the switches may select the shared case)
                for two_deciders in (False, True):
                    if q and (s1 not in ('leaf', 'chain', 'sh') or s2 != 'leaf' or dec == 'shared'):
                        continue        # three-way fan-in with large case sub-pipelines: thorough tier only
                    if s1 in ('relay', 'sh-relay') or s2 not in ('leaf', 'sh'):
                        continue
                    b, d, c1, c2 = mk()
                    d2 = b.node('T', 'I') if two_deciders else d
                    x = b.consumer('X', [['c', 'switch', sw('swx', d, c1, c2)]])
                    y = b.consumer('Y', [['c', 'switch', sw('swy', d2, c1, b.cand('leaf'))]])
                    emit(b, b.consumer('O', [['x_', 'in', x], ['y_', 'in', y], ['d_', 'in', c1]]))
                    b, d, c1, c2 = mk()
                    d2 = b.node('T', 'I') if two_deciders else d
                    x = b.consumer('X', [['c', 'switch', sw('swx', d, c2, c1)]])
                    y = b.consumer('Y', [['c', 'switch', sw('swy', d2, c1, b.cand('leaf'))]])
                    emit(b, b.consumer('O', [['d_', 'in', c1], ['y_', 'in', y], ['x_', 'in', x]]))
                # nested: the inner switch's consumer is case 'a' of the outer switch
                b, d, c1, c2 = mk()
                n = b.consumer('N', [['c', 'switch', sw('inner', d, c1, c2)]])
                d2 = b.node('T', 'I')
                emit(b, b.consumer('O', [['c', 'switch', sw('outer', d2, n, b.cand('leaf'))]]))
                # chained: a case of the second switch depends on the first switch's consumer
                b, d, c1, c2 = mk()
                m = b.consumer('M', [['c', 'switch', sw('first', d, c1, c2)]])
                c3 = b.cand('leaf', m)
                emit(b, b.consumer('O', [['c', 'switch', sw('second', d, c3, b.cand('leaf'))], ['m', 'in', m]]))
    return out


def recx(tier: str = 'quick') -> t.List[dict]:
    """Recurrent-subgraph programs composed from region shapes and contexts."""
    q = tier == 'quick'
    out: t.List[dict] = []
    seen: t.Set[str] = set()

    def emit(b: _Builder, output: str) -> None:
        sp = S.normalise(b.spec(output))
        k = S.canon(sp)
        if k not in seen and S.well_formed(sp) and not S.static_tags(sp):
            seen.add(k)
            out.append(sp)

    def region(b: _Builder, shape: str, start: str) -> str:
        """Add the nodes of a region below `start`; return the destination."""
        if shape == 'self':
            return start
        if shape == 'direct':
            return b.node('D', start)
        if shape == 'chain':
            return b.node('D', b.node('A', start))
        if shape == 'chain3':
            return b.node('D', b.node('B', b.node('A', start)))
        if shape == 'diamond':
            return b.node('D', b.node('A', start), b.node('B', start))
        if shape == 'side-input':       # an inner node also reads a node outside the region
            return b.node('D', b.node('A', start, b.node('X', 'I')))
        if shape == 'relay':
            return b.node('D', b.node('A', start), b.node('R', b.node('B', start)))
        raise KeyError(shape)

    shapes = ('self', 'direct', 'chain', 'diamond', 'side-input', 'relay') if q else ('self', 'direct', 'chain', 'chain3', 'diamond', 'side-input', 'relay')
    for start_kind in ('input', 'inner'):
        for shape in shapes:
            if shape == 'self' and start_kind == 'input':
                continue
            for mx in ((1,) if q else (1, 2)):
                for use_default in (False, True):
                    def mk() -> t.Tuple[_Builder, str, str]:
                        b = _Builder()
                        st = 'I' if start_kind == 'input' else b.node('S', 'I')
                        d = region(b, shape, st)
                        if use_default:
                            b.nodes[d]['use_default'] = True
                        return b, st, d
                    b, st, d = mk()
                    emit(b, b.consumer('O', [['r', 'rec', {'start': st, 'dest': d, 'max': mx}]]))
                    # a sibling outside the subgraph
                    b, st, d = mk()
                    emit(b, b.consumer('O', [['r', 'rec', {'start': st, 'dest': d, 'max': mx}], ['k', 'in', b.node('K', 'I')]]))
                    # second consumer of the destination
                    b, st, d = mk()
                    c = b.node('C', d)
                    emit(b, b.consumer('O', [['r', 'rec', {'start': st, 'dest': d, 'max': mx}], ['c', 'in', c]]))
                    # a consumer chain behind the subgraph
                    b, st, d = mk()
                    m = b.consumer('M', [['r', 'rec', {'start': st, 'dest': d, 'max': mx}]])
                    emit(b, b.node('O', m))
                    if use_default or mx > 1:
                        continue
                    # nested: an inner subgraph on the path of the outer one
                    b, st, d = mk()
                    m = b.consumer('M', [['r', 'rec', {'start': st, 'dest': d, 'max': 1}]])
                    d2 = b.node('E', m)
                    emit(b, b.consumer('O', [['r', 'rec', {'start': st, 'dest': d2, 'max': 1}]]))
                    # two subgraphs one after the other
                    b, st, d = mk()
                    m = b.consumer('M', [['r', 'rec', {'start': st, 'dest': d, 'max': 1}]])
                    d2 = b.node('E', b.node('F', m))
                    emit(b, b.consumer('O', [['r', 'rec', {'start': m, 'dest': d2, 'max': 1}]]))
                    # same start, two destinations
                    if start_kind == 'inner' and (shape in ('direct', 'chain') or not q):
                        b, st, d = mk()
                        d2 = b.node('E', st)
                        emit(b, b.consumer('O', [['r1', 'rec', {'start': st, 'dest': d, 'max': 1}],
                                                 ['r2', 'rec', {'start': st, 'dest': d2, 'max': 1}]]))
    return out


# ------------------------------------------------------------------------------------ plans

def switch_nodes(spec: dict) -> t.List[t.Tuple[str, t.List[str]]]:
    out = []
    for n, nd in spec['nodes'].items():
        for kw, kind, arg in nd['params']:
            if kind == 'switch':
                out.append((arg['switch'], [l for l, _ in arg['cases']]))
    return out


def base_plans(spec: dict, tier: str = 'quick') -> t.List[dict]:
    """Label choices x recurrence requests (no failures)."""
    sws = switch_nodes(spec)
    sw_names: t.List[str] = []
    for s, _ in sws:
        if s not in sw_names:
            sw_names.append(s)
    labels = {s: sorted({l for s2, ls in sws if s2 == s for l in ls}) for s in sw_names}
    label_choices = [dict(zip(sw_names, c)) for c in itertools.product(*(labels[s] for s in sw_names))] if sw_names else [{}]
    recs = [(arg['dest'], arg['max']) for _, arg in S.rec_marks(spec)]
    out = []
    for lc in label_choices:
        base = {s: ['label:' + l] for s, l in lc.items()}
        rec_opts: t.List[t.List[t.Optional[tuple]]] = []
        for d, mx in recs:
            rec_opts.append([None] + [(d, k) for k in range(1, mx + 2)])
        for combo in itertools.product(*rec_opts) if rec_opts else [()]:
            b = dict(base)
            ok = True
            for c in combo:
                if c is None:
                    continue
                d, k = c
                if d in b:
                    # the destination is also a switch node: after iterating it returns its label
                    b[d] = ['next'] * k + b[d]
                else:
                    b[d] = ['next'] * k + ['ok']
            if ok:
                out.append(b)
                if any(c is not None for c in combo):
                    # the first restart of every destination carries a FALSY (non-None) payload
                    out.append({n: (['next0'] + v[1:] if v[0] == 'next' else v) for n, v in b.items()})
                # a switch node that is re-executed in a later iteration may return another label there
                iterated = [c for c in combo if c is not None]
                if iterated and lc:
                    for sname in lc:
                        if sname in b and b[sname][0].startswith('label:') and len(labels[sname]) > 1:
                            other = [l for l in labels[sname] if 'label:' + l != b[sname][0]][0]
                            out.append(dict(b, **{sname: [b[sname][0], 'label:' + other]}))
    return out


def plans(spec: dict, tier: str = 'quick', pairs: bool = False) -> t.List[dict]:
    names = list(spec['nodes'])
    out: t.List[dict] = []
    seen: t.Set[str] = set()

    def add(p: dict) -> None:
        k = json.dumps(p, sort_keys=True)
        if k not in seen:
            seen.add(k)
            out.append(p)

    bases = base_plans(spec, tier)
    for b in bases:
        add(b)
        for n in names:
            if n in b:
                # failing after its scripted prefix (e.g. fails in iteration 1)
                if b[n][0] in ('next', 'next0'):
                    add(dict(b, **{n: [b[n][0], 'raise:E1']}))
                    add(dict(b, **{n: ['raise:E1']}))
                else:
                    add(dict(b, **{n: ['raise:E1']}))
                continue
            add(dict(b, **{n: ['raise:E1']}))
            if any(v[0] in ('next', 'next0') for v in b.values()):
                add(dict(b, **{n: ['ok', 'raise:E1']}))
        if pairs:
            free = [n for n in names if n not in b]
            for n1, n2 in itertools.combinations(free, 2):
                add(dict(b, **{n1: ['raise:E1'], n2: ['raise:E2']}))
    sws = switch_nodes(spec)
    b0 = bases[0]
    for s, _ in sws:
        add(dict(b0, **{s: ['label:zz']}))
        add(dict(b0, **{s: ['unhashable']}))        # a label that cannot be hashed matches no case either
    for n in names[1:]:
        if n not in b0:
            add(dict(b0, **{n: ['none']}))
            add(dict(b0, **{n: ['zero']}))
    add(dict(b0, **{names[0]: ['none']}))
    # a failure whose exception cannot be rendered (str(e) raises)
    for n in names:
        if n not in b0:
            add(dict(b0, **{n: ['raise:E3']}))
    # unusual but legal VALUES: one whose truth value raises (array-like), and an exception instance returned as a value
    for n in names:
        if n not in b0:
            add(dict(b0, **{n: ['ambig']}))
            add(dict(b0, **{n: ['excval']}))
    return out


def with_mode(spec: dict, mode: str) -> dict:
    sp = json.loads(json.dumps(spec))
    for nd in sp['nodes'].values():
        nd['mode'] = mode
    return sp
