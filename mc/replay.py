"""python -m mc.replay <replay.json>: re-run one recorded schedule on the controlled loop without the
explorer (build, deliver in the listed order, print the trace, re-evaluate the monitors)."""
import json
import sys

from mc import env

env.ensure_hashseed()

from mc import explore as X  # noqa: E402
from mc import ref as R  # noqa: E402
from mc import runner as RU  # noqa: E402


def main() -> int:
    doc = json.load(open(sys.argv[1]))
    if 'case' not in doc or 'schedule' not in doc:
        print(json.dumps(doc, indent=1)[:4000])
        return 0
    c = doc['case']
    case = X.Case(c['spec'], c['plans'], inputs=c['inputs'], collab=c.get('collab') or {},
                  cancel=tuple(c['cancel']) if c.get('cancel') else None, fam=c.get('fam', ''))
    print(doc.get('source', ''))
    print('plan:', c['plans'], 'inputs:', c['inputs'], 'collab:', c.get('collab'), 'cancel:', c.get('cancel'))
    x1 = X.execute(case, doc['schedule'], bound=99)
    x2 = X.execute(case, doc['schedule'], bound=99)
    assert x1.digest() == x2.digest(), 'two replays of the same schedule differ: unowned nondeterminism'
    for e in x1.log:
        print('  ', X._short(e))
    print('status:', x1.status, 'outcome:', [X._short(o[:2]) if o else None for o in x1.outcomes])
    ref = R.evaluate(case.spec, case.plans[0], case.inputs[0])
    print('reference:', ref.outcome, 'tags:', sorted(ref.tags))
    mons = ['term', 'outcome', 'kwargs', 'counts', 'order', 'left', 'events'] + (['saves'] if case.collab.get('store') else [])
    syms = RU.apply_monitors(x1, ref, case, mons)
    for s in syms:
        print('MONITOR', s)
    want = doc.get('symptom')
    if want and want != 'outcome-varies':
        ok = any(s[0] == want for s in syms)
        print('reproduced' if ok else 'NOT reproduced', want)
        return 0 if ok else 1
    return 0


if __name__ == '__main__':
    sys.exit(main())
