"""Known findings (DESIGN 3.1): committed list of genuine defects of the pinned tree that are recorded
rather than repaired. Never written at run time. A violation is attributed to an open finding only if
property, feature tag(s) and symptom all match; everything else is a VIOLATION."""
import json
import os
import typing as t

PATH = os.path.join(os.path.dirname(os.path.dirname(os.path.abspath(__file__))), 'KNOWN_FINDINGS.json')


def load() -> t.List[dict]:
    if not os.path.exists(PATH):
        return []
    with open(PATH) as f:
        data = json.load(f)
    return [e for e in data.get('findings', []) if e.get('status') == 'open']


def match(findings: t.List[dict], prop: str, tags: t.Iterable[str], symptom: str, extra: t.Optional[dict] = None) -> t.Optional[dict]:
    tags = set(tags)
    for f in findings:
        if prop not in f['properties']:
            continue
        if symptom not in f['symptoms']:
            continue
        feats = f['feature'] if isinstance(f['feature'], list) else [f['feature']]
        if not all(ft in tags for ft in feats):
            continue
        if any(nt in tags for nt in f.get('not_feature', [])):
            continue
        return f
    return None
