"""Evidence writer (schema: /root/.vp/EVIDENCE.schema.json)."""
import json
import os
import typing as t

from mc import env


def write(prop: str, tier: str, seed: int, level: str, coverage: dict, assumptions: t.List[str], wall: float,
          violations: int) -> str:
    path = os.path.join(env.VERIF, 'evidence', f'{prop}.json')
    os.makedirs(os.path.dirname(path), exist_ok=True)
    doc = dict(property_id=prop, tier=tier, seed=seed, level=level, coverage=coverage,
               assumptions=assumptions, wall_s=round(wall, 2), violations=violations)
    tmp = path + '.tmp'
    with open(tmp, 'w') as f:
        json.dump(doc, f, indent=1, default=repr, sort_keys=True)
    os.replace(tmp, path)
    return path
