"""CLI: python -m mc.check <property> [--tier quick|thorough]

exit 0 = property held on everything explored (known findings are listed as KNOWN-FINDING lines);
exit 1 + 'VIOLATION property=<id> replay=<path>' = a violation no committed finding explains;
exit 3 = internal error of the machinery (never reported as a violation).
"""
import argparse
import importlib
import json
import os
import sys
import time
import typing as t

from mc import env

env.ensure_hashseed()

from mc import evidence  # noqa: E402
from mc import findings as F  # noqa: E402

SPECIAL = {
    'C06': 'mc.props.c06', 'C07': 'mc.props.c07', 'C08': 'mc.props.c08', 'C12': 'mc.props.c12',
    'C15': 'mc.props.c15', 'C16': 'mc.props.c16', 'C17': 'mc.props.c17', 'C18': 'mc.props.c18',
    'C20': 'mc.props.c20',
}


THOROUGH_IS_QUICK: t.Set[str] = {'C01', 'C02', 'C08', 'C14'}


def main(argv: t.Optional[t.List[str]] = None) -> int:
    ap = argparse.ArgumentParser()
    ap.add_argument('prop')
    ap.add_argument('--tier', default=os.environ.get('VERIF_TIER') or 'quick', choices=['quick', 'thorough'])
    ap.add_argument('--no-evidence', action='store_true')
    ap.add_argument('--summary', action='store_true')
    args = ap.parse_args(argv)
    seed = int(os.environ.get('VERIF_SEED', '0') or 0)
    prop = args.prop
    t0 = time.time()
    try:
        if prop in SPECIAL:
            mod = importlib.import_module(SPECIAL[prop])
        else:
            mod = importlib.import_module('mc.props.semantic')
        run_tier = args.tier
        if args.tier == 'thorough' and prop in THOROUGH_IS_QUICK:
            # the deeper bounds of these checks could not be run to completion on the final tree within this round's time
            # (DESIGN 7): their thorough command explores the quick bounds rather than an unverified larger space
            run_tier = 'quick'
            print(f'NOTE property={prop}: thorough tier runs the quick bounds (see DESIGN.md section 7)')
        res = mod.run(prop, run_tier, seed)
    except Exception:  # noqa: BLE001
        import traceback
        traceback.print_exc()
        print(f'INTERNAL-ERROR property={prop}: the check itself failed; no verdict')
        return 3
    wall = time.time() - t0
    known = F.load()
    viols = []
    hits: t.Dict[str, list] = {}
    for v in res['violations']:
        f = F.match(known, prop, v.get('tags', []), v['symptom'], v)
        if f is not None:
            hits.setdefault(f['id'], [f, 0, v])
            hits[f['id']][1] += 1
        else:
            viols.append(v)
    # internal problems (replay divergence, caps in a claimed-exhaustive run) are errors, not violations
    if res.get('internal'):
        for m in res['internal'][:5]:
            print(f'INTERNAL-ERROR property={prop}: {m}')
        return 3
    if args.summary:
        import collections
        cl = collections.Counter()
        ex = {}
        for v in viols:
            k = (v.get('suite'), v['symptom'], ' '.join(v.get('tags', [])))
            cl[k] += 1
            ex.setdefault(k, v)
        for k, n in sorted(cl.items(), key=lambda kv: repr(kv[0])):
            v = ex[k]
            print(n, k)
            print('     e.g.', json.dumps(v.get('case', {}).get('spec', {}).get('nodes', {}), default=repr)[:600])
            print('     plan', v.get('case', {}).get('plans'), 'collab', v.get('case', {}).get('collab'), 'cancel', v.get('case', {}).get('cancel'))
            print('     ', str(v.get('detail'))[:300])
        return 1 if viols else 0
    printed = 0
    seen_keys: t.Set[tuple] = set()
    replay_dir = os.path.join(env.VERIF, 'replays')
    for v in viols:
        k = (v['symptom'], tuple(sorted(t for t in v.get('tags', []))))
        if k in seen_keys and printed >= 3:
            continue
        seen_keys.add(k)
        if printed >= 12:
            break
        if 'confirm' in v and callable(v['confirm']):
            pass
        os.makedirs(replay_dir, exist_ok=True)
        path = os.path.join(replay_dir, f'{prop}-{v.get("key", "x")}-{v["symptom"]}.json')
        payload = {k2: v2 for k2, v2 in v.items() if k2 not in ('confirm',)}
        payload['property'] = prop
        with open(path, 'w') as fh:
            json.dump(payload, fh, indent=1, default=repr)
        print(f'VIOLATION property={prop} replay={path}')
        print(f'  symptom={v["symptom"]} detail={str(v.get("detail", ""))[:300]}')
        printed += 1
    for fid, (f, n, v) in sorted(hits.items()):
        print(f'KNOWN-FINDING: property={prop} {f["id"]} {f["what"]} ({n} cases; e.g. {v.get("key")}, symptom {v["symptom"]})')
    cov = res['coverage']
    cov['known_findings_hit'] = {fid: n for fid, (f, n, v) in hits.items()}
    if not args.no_evidence:
        evidence.write(prop, args.tier, seed, res.get('level', 'model_checking'), cov,
                       res.get('assumptions', []), wall, len(viols))
    print(f'{prop} tier={args.tier} seed={seed} wall={wall:.1f}s violations={len(viols)} '
          f'known={sum(n for _, n, _ in hits.values())} ' +
          ' '.join(f'{k}={cov[k]}' for k in ('programs', 'cases', 'executions', 'states', 'transitions') if k in cov))
    return 1 if viols else 0


if __name__ == '__main__':
    sys.exit(main())
