"""Curated corpus: hand-written specs for the shapes of the repository's tests, the docs examples and
every probe shape named in properties.jsonl (DESIGN 2.6 'corpus'). Each entry: (name, spec, [plans])."""
import typing as t

from mc import spec as S


def P(*params) -> dict:
    return {'params': [list(p) for p in params]}


def chain(names: t.List[str], first_dep: str, kw: str = 'p') -> dict:
    out = {}
    prev = first_dep
    for n in names:
        out[n] = P((kw, 'in', prev))
        prev = n
    return out


def _oneof_chain(depth: int) -> dict:
    """One-of whose first candidate sits `depth` dependency hops below a private failing node (D2)."""
    nodes = {'I': P(('x', 'plain'))}
    names = [f'A{i}' for i in range(depth)]
    nodes.update(chain(names, 'I'))
    nodes['B'] = P(('p', 'in', 'I'))
    nodes['O'] = P(('o', 'oneof', [names[-1], 'B']))
    return {'nodes': nodes, 'input': 'I', 'output': 'O'}


def entries() -> t.List[t.Tuple[str, dict, t.List[dict]]]:
    E: t.List[t.Tuple[str, dict, t.List[dict]]] = []

    def add(name: str, spec: dict, plans: t.Optional[t.List[dict]] = None) -> None:
        E.append((name, S.normalise(spec), plans or []))

    # --- plain shapes (tests/dag/test_dag_chain, rhombus, single-ish, demo_ml_model)
    add('chain3', {'nodes': {'I': P(('x', 'plain')), **chain(['A', 'B'], 'I')}, 'input': 'I', 'output': 'B'})
    add('rhombus', {'nodes': {'I': P(('x', 'plain')), 'A': P(('p', 'in', 'I')), 'B': P(('p', 'in', 'I')),
                              'O': P(('a', 'in', 'A'), ('b', 'in', 'B'))}, 'input': 'I', 'output': 'O'})
    add('demo_ml', {'nodes': {'I': P(('x', 'plain')), 'F1': P(('p', 'in', 'I')), 'F2': P(('p', 'in', 'I')),
                              'F3': P(('p', 'in', 'I')), 'V': P(('a', 'in', 'F1'), ('b', 'in', 'F2'), ('c', 'in', 'F3')),
                              'M': P(('v', 'in', 'V')), 'O': P(('m', 'in', 'M'), ('i', 'in', 'I'))},
                    'input': 'I', 'output': 'O'})
    add('diamond7', {'nodes': {'I': P(('x', 'plain')), 'A': P(('i', 'in', 'I')), 'B': P(('i', 'in', 'I')),
                               'C': P(('a', 'in', 'A'), ('b', 'in', 'B')), 'D': P(('b', 'in', 'B')),
                               'E': P(('c', 'in', 'C')), 'O': P(('e', 'in', 'E'), ('d', 'in', 'D'))},
                     'input': 'I', 'output': 'O'})
    # --- retry shapes (tests/dag/retry)
    add('retry2', {'nodes': {'I': P(('x', 'plain')), 'A': dict(P(('p', 'in', 'I')), attempts=3, delay=0.5),
                             'B': P(('p', 'in', 'I')), 'O': P(('a', 'in', 'A'), ('b', 'in', 'B'))},
                   'input': 'I', 'output': 'O'},
        [{'A': ['raise:E1', 'raise:E1', 'ok']}, {'A': ['raise:E1']}, {'A': ['raise:E1', 'ok'], 'B': ['raise:E2']},
         {'A': ['raise:Fatal']}])
    add('retry_default', {'nodes': {'I': P(('x', 'plain')),
                                    'A': dict(P(('p', 'in', 'I')), attempts=2, delay=1, use_default=True, exceptions=['E1']),
                                    'O': P(('a', 'in', 'A'))}, 'input': 'I', 'output': 'O'},
        [{'A': ['raise:E1', 'raise:E1']}, {'A': ['raise:E2']}, {'A': ['raise:E1', 'ok']}])
    # attempts = 0 / delay = 0 / exceptions = () are falsy: the policy falls back to its defaults (1 attempt, no delay, Exception)
    add('retry_zero', {'nodes': {'I': P(('x', 'plain')), 'A': dict(P(('p', 'in', 'I')), attempts=0, delay=0, exceptions=[]),
                                 'B': dict(P(('p', 'in', 'I')), attempts=0, use_default=True), 'O': P(('a', 'in', 'A'), ('b', 'in', 'B'))},
                       'input': 'I', 'output': 'O'},
        [{'A': ['raise:E1', 'ok']}, {'B': ['raise:E1', 'ok']}, {'A': ['raise:E2'], 'B': ['raise:E1']}])
    # --- switch shapes (tests/dag/switch_case)
    add('switch_basic', {'nodes': {'I': P(('x', 'plain')), 'S': P(('p', 'in', 'I')), 'A': P(('p', 'in', 'I')),
                                   'B': P(('p', 'in', 'I')),
                                   'O': P(('c', 'switch', {'switch': 'S', 'cases': [['a', 'A'], ['b', 'B']], 'name': 'sw'}))},
                         'input': 'I', 'output': 'O'})
    add('switch_shared_anc', {'nodes': {'I': P(('x', 'plain')), 'S': P(('p', 'in', 'I')), 'H': P(('p', 'in', 'I')),
                                        'A': P(('p', 'in', 'H')), 'B': P(('p', 'in', 'H')), 'M': P(('p', 'in', 'H')),
                                        'O': P(('c', 'switch', {'switch': 'S', 'cases': [['a', 'A'], ['b', 'B']], 'name': 'sw'}),
                                               ('m', 'in', 'M'))}, 'input': 'I', 'output': 'O'})
    add('switch_nested', {'nodes': {'I': P(('x', 'plain')), 'S1': P(('p', 'in', 'I')), 'S2': P(('p', 'in', 'I')),
                                    'A': P(('p', 'in', 'I')), 'B': P(('p', 'in', 'I')), 'C': P(('p', 'in', 'I')),
                                    'N': P(('c', 'switch', {'switch': 'S2', 'cases': [['a', 'A'], ['b', 'B']], 'name': 'inner'})),
                                    'O': P(('c', 'switch', {'switch': 'S1', 'cases': [['a', 'N'], ['b', 'C']], 'name': 'outer'}))},
                          'input': 'I', 'output': 'O'})
    add('switch_multiple', {'nodes': {'I': P(('x', 'plain')), 'S': P(('p', 'in', 'I')), 'A': P(('p', 'in', 'I')),
                                      'B': P(('p', 'in', 'I')), 'C': P(('p', 'in', 'I')), 'D': P(('p', 'in', 'I')),
                                      'O': P(('c1', 'switch', {'switch': 'S', 'cases': [['a', 'A'], ['b', 'B']], 'name': 'sw1'}),
                                             ('c2', 'switch', {'switch': 'S', 'cases': [['a', 'C'], ['b', 'D']], 'name': 'sw2'}))},
                            'input': 'I', 'output': 'O'})
    # tests/dag/switch_case/test_concurrent_switch: two consumers each switching to cases sharing an ancestor
    add('switch_concurrent', {'nodes': {'I': P(('x', 'plain')), 'S': P(('p', 'in', 'I')), 'H': P(('p', 'in', 'I')),
                                        'A': P(('p', 'in', 'H')), 'B': P(('p', 'in', 'H')),
                                        'X': P(('c', 'switch', {'switch': 'S', 'cases': [['a', 'A'], ['b', 'B']], 'name': 'swx'})),
                                        'Y': P(('c', 'switch', {'switch': 'S', 'cases': [['a', 'A'], ['b', 'B']], 'name': 'swy'})),
                                        'O': P(('x_', 'in', 'X'), ('y_', 'in', 'Y'))}, 'input': 'I', 'output': 'O'})
    # --- one-of shapes (tests/dag/oneof)
    add('oneof_basic', {'nodes': {'I': P(('x', 'plain')), 'A': P(('p', 'in', 'I')), 'B': P(('p', 'in', 'I')),
                                  'O': P(('o', 'oneof', ['A', 'B']))}, 'input': 'I', 'output': 'O'})
    add('oneof3', {'nodes': {'I': P(('x', 'plain')), 'A': P(('p', 'in', 'I')), 'B': P(('p', 'in', 'I')), 'C': P(('p', 'in', 'I')),
                             'O': P(('o', 'oneof', ['A', 'B', 'C']))}, 'input': 'I', 'output': 'O'},
        [{'A': ['raise:E1'], 'B': ['raise:E2']}, {'A': ['raise:E1'], 'B': ['raise:E2'], 'C': ['raise:E1']}])
    for d in (1, 2, 3, 4):
        sp = _oneof_chain(d)
        add(f'oneof_chain{d}', sp, [{'A0': ['raise:E1']}, {f'A{d-1}': ['raise:E1']}, {'A0': ['raise:E1'], 'B': ['raise:E2']}])
    add('oneof_multiple', {'nodes': {'I': P(('x', 'plain')), 'A': P(('p', 'in', 'I')), 'B': P(('p', 'in', 'I')),
                                     'C': P(('p', 'in', 'I')), 'D': P(('p', 'in', 'I')),
                                     'O': P(('o1', 'oneof', ['A', 'B']), ('o2', 'oneof', ['C', 'D']))},
                           'input': 'I', 'output': 'O'},
        [{'A': ['raise:E1'], 'C': ['raise:E2']}, {'A': ['raise:E1'], 'B': ['raise:E1']}])
    add('oneof_nested2', {'nodes': {'I': P(('x', 'plain')), 'A': P(('p', 'in', 'I')), 'B': P(('p', 'in', 'I')),
                                    'N': P(('o', 'oneof', ['A', 'B'])), 'C': P(('p', 'in', 'I')),
                                    'O': P(('o', 'oneof', ['N', 'C']))}, 'input': 'I', 'output': 'O'},
        [{'A': ['raise:E1'], 'B': ['raise:E2']}, {'A': ['raise:E1'], 'B': ['raise:E2'], 'C': ['raise:E1']}, {'N': ['raise:E1']}])
    add('oneof_nested3', {'nodes': {'I': P(('x', 'plain')), 'A': P(('p', 'in', 'I')), 'B': P(('p', 'in', 'I')),
                                    'N1': P(('o', 'oneof', ['A', 'B'])), 'C': P(('p', 'in', 'I')),
                                    'N2': P(('o', 'oneof', ['N1', 'C'])), 'D': P(('p', 'in', 'I')),
                                    'O': P(('o', 'oneof', ['N2', 'D']))}, 'input': 'I', 'output': 'O'},
        [{'A': ['raise:E1'], 'B': ['raise:E2']}, {'A': ['raise:E1'], 'B': ['raise:E2'], 'C': ['raise:E1']},
         {'A': ['raise:E1'], 'B': ['raise:E2'], 'C': ['raise:E1'], 'D': ['raise:E2']}])
    add('oneof_shared_anc', {'nodes': {'I': P(('x', 'plain')), 'H': P(('p', 'in', 'I')), 'A': P(('p', 'in', 'H')),
                                       'B': P(('p', 'in', 'H')), 'M': P(('p', 'in', 'H')),
                                       'O': P(('o', 'oneof', ['A', 'B']), ('m', 'in', 'M'))}, 'input': 'I', 'output': 'O'})
    add('oneof_priv_anc', {'nodes': {'I': P(('x', 'plain')), 'HA': P(('p', 'in', 'I')), 'A': P(('p', 'in', 'HA')),
                                     'HB': P(('p', 'in', 'I')), 'B': P(('p', 'in', 'HB')),
                                     'O': P(('o', 'oneof', ['A', 'B']))}, 'input': 'I', 'output': 'O'})
    # a failing branch of a candidate cancels a still-pending sibling task of the same candidate (D5 probe)
    add('oneof_cancel_sibling', {'nodes': {'I': P(('x', 'plain')), 'PP': P(('i', 'in', 'I')), 'Q': P(('i', 'in', 'I')),
                                           'N': P(('p', 'in', 'PP')), 'K1': P(('n', 'in', 'N'), ('q', 'in', 'Q')),
                                           'K2': P(('i', 'in', 'I')), 'O': P(('v', 'oneof', ['K1', 'K2']))},
                                 'input': 'I', 'output': 'O'})
    add('oneof_cancel_sibling2', {'nodes': {'I': P(('x', 'plain')), 'PP': P(('i', 'in', 'I')), 'Q': P(('i', 'in', 'I')),
                                            'R': P(('q', 'in', 'Q')), 'K1': P(('p', 'in', 'PP'), ('r', 'in', 'R')),
                                            'K2': P(('i', 'in', 'I')), 'O': P(('v', 'oneof', ['K1', 'K2']))},
                                  'input': 'I', 'output': 'O'})
    add('oneof_chained', {'nodes': {'I': P(('x', 'plain')), 'A': P(('p', 'in', 'I')), 'B': P(('p', 'in', 'I')),
                                    'M': P(('o', 'oneof', ['A', 'B'])), 'C': P(('p', 'in', 'M')), 'D': P(('p', 'in', 'I')),
                                    'O': P(('o', 'oneof', ['C', 'D']))}, 'input': 'I', 'output': 'O'},
        [{'A': ['raise:E1']}, {'A': ['raise:E1'], 'B': ['raise:E2']}, {'C': ['raise:E1']}])
    # --- recurrent shapes (tests/dag/recurrent_subgraph)
    add('rec_simple', {'nodes': {'I': P(('x', 'plain')), 'A': P(('p', 'in', 'I')), 'D': dict(P(('p', 'in', 'A')), use_default=True),
                                 'K': P(('p', 'in', 'I')),
                                 'O': P(('k', 'in', 'K'), ('r', 'rec', {'start': 'I', 'dest': 'D', 'max': 1}))},
                       'input': 'I', 'output': 'O'})
    add('rec_inner_start', {'nodes': {'I': P(('x', 'plain')), 'S': P(('p', 'in', 'I')), 'A': P(('p', 'in', 'S')),
                                      'D': P(('p', 'in', 'A')), 'O': P(('r', 'rec', {'start': 'S', 'dest': 'D', 'max': 2}))},
                            'input': 'I', 'output': 'O'})
    add('rec_min4', {'nodes': {'I': P(('x', 'plain')), 'S': P(('p', 'in', 'I')), 'D': P(('p', 'in', 'S')),
                               'O': P(('r', 'rec', {'start': 'S', 'dest': 'D', 'max': 1}))}, 'input': 'I', 'output': 'O'})
    add('rec_self', {'nodes': {'I': P(('x', 'plain')), 'D': dict(P(('p', 'in', 'I')), use_default=True),
                               'O': P(('r', 'rec', {'start': 'D', 'dest': 'D', 'max': 2}))}, 'input': 'I', 'output': 'O'})
    add('rec_default', {'nodes': {'I': P(('x', 'plain')), 'S': P(('p', 'in', 'I')),
                                  'D': dict(P(('p', 'in', 'S')), use_default=True),
                                  'O': P(('r', 'rec', {'start': 'S', 'dest': 'D', 'max': 2}))}, 'input': 'I', 'output': 'O'})
    add('rec_two_consumers', {'nodes': {'I': P(('x', 'plain')), 'S': P(('p', 'in', 'I')), 'D': P(('p', 'in', 'S')),
                                        'C': P(('p', 'in', 'D')),
                                        'O': P(('r', 'rec', {'start': 'S', 'dest': 'D', 'max': 2}), ('c', 'in', 'C'))},
                              'input': 'I', 'output': 'O'})
    add('rec_retry_start', {'nodes': {'I': P(('x', 'plain')), 'S': dict(P(('p', 'in', 'I')), attempts=2, delay=0.5),
                                      'D': P(('p', 'in', 'S')),
                                      'O': P(('r', 'rec', {'start': 'S', 'dest': 'D', 'max': 1}))}, 'input': 'I', 'output': 'O'},
        [{'D': ['next', 'ok'], 'S': ['ok', 'raise:E1', 'ok']}, {'D': ['next', 'ok'], 'S': ['raise:E1', 'ok', 'ok']}])
    # tests/dag/recurrent_subgraph/test_nested_subgraph: inner subgraph on the path of the outer one
    add('rec_nested', {'nodes': {'I': P(('x', 'plain')), 'S': P(('p', 'in', 'I')), 'D1': P(('p', 'in', 'S')),
                                 'M': P(('r', 'rec', {'start': 'S', 'dest': 'D1', 'max': 1})), 'D2': P(('p', 'in', 'M')),
                                 'O': P(('r', 'rec', {'start': 'S', 'dest': 'D2', 'max': 1}))}, 'input': 'I', 'output': 'O'},
        [{'D1': ['next', 'ok', 'next', 'ok'], 'D2': ['next', 'ok']}, {'D1': ['next', 'ok', 'ok'], 'D2': ['next', 'ok']},
         {'D1': ['ok', 'next', 'ok'], 'D2': ['next', 'ok']}])
    add('rec_nested_default', {'nodes': {'I': P(('x', 'plain')), 'S': P(('p', 'in', 'I')), 'D1': dict(P(('p', 'in', 'S')), use_default=True),
                                         'M': P(('r', 'rec', {'start': 'S', 'dest': 'D1', 'max': 1})), 'D2': dict(P(('p', 'in', 'M')), use_default=True),
                                         'O': P(('r', 'rec', {'start': 'S', 'dest': 'D2', 'max': 1}))}, 'input': 'I', 'output': 'O'},
        [{'D1': ['next'], 'D2': ['next', 'ok']}, {'D1': ['next', 'ok', 'next', 'ok'], 'D2': ['next']}])
    add('rec_in_oneof', {'nodes': {'I': P(('x', 'plain')), 'S': P(('p', 'in', 'I')), 'D': P(('p', 'in', 'S')),
                                   'A': P(('r', 'rec', {'start': 'S', 'dest': 'D', 'max': 1})), 'B': P(('p', 'in', 'I')),
                                   'O': P(('o', 'oneof', ['A', 'B']))}, 'input': 'I', 'output': 'O'})
    add('rec_with_switch_inside', {'nodes': {'I': P(('x', 'plain')), 'S': P(('p', 'in', 'I')), 'W': P(('p', 'in', 'S')),
                                             'A': P(('p', 'in', 'S')), 'B': P(('p', 'in', 'S')),
                                             'D': P(('c', 'switch', {'switch': 'W', 'cases': [['a', 'A'], ['b', 'B']], 'name': 'swr'})),
                                             'O': P(('r', 'rec', {'start': 'S', 'dest': 'D', 'max': 1}))},
                                   'input': 'I', 'output': 'O'})
    # --- nestings (mix)
    add('switch_in_oneof', {'nodes': {'I': P(('x', 'plain')), 'S': P(('p', 'in', 'I')), 'XX': P(('p', 'in', 'I')),
                                      'Y': P(('p', 'in', 'I')),
                                      'A': P(('c', 'switch', {'switch': 'S', 'cases': [['a', 'XX'], ['b', 'Y']], 'name': 'swo'})),
                                      'B': P(('p', 'in', 'I')), 'O': P(('o', 'oneof', ['A', 'B']))},
                            'input': 'I', 'output': 'O'},
        [{'S': ['label:a'], 'XX': ['raise:E1'], 'B': ['raise:E2']}])
    add('switch_in_oneof_deep', {'nodes': {'I': P(('x', 'plain')), 'S': P(('p', 'in', 'I')), 'H': P(('p', 'in', 'I')),
                                           'XX': P(('p', 'in', 'H')), 'Y': P(('p', 'in', 'I')),
                                           'A': P(('c', 'switch', {'switch': 'S', 'cases': [['a', 'XX'], ['b', 'Y']], 'name': 'swo'})),
                                           'B': P(('p', 'in', 'I')), 'O': P(('o', 'oneof', ['A', 'B']))},
                                 'input': 'I', 'output': 'O'})
    add('oneof_in_switch', {'nodes': {'I': P(('x', 'plain')), 'S': P(('p', 'in', 'I')), 'A': P(('p', 'in', 'I')),
                                      'B': P(('p', 'in', 'I')), 'N': P(('o', 'oneof', ['A', 'B'])), 'C': P(('p', 'in', 'I')),
                                      'O': P(('c', 'switch', {'switch': 'S', 'cases': [['a', 'N'], ['b', 'C']], 'name': 'swn'}))},
                            'input': 'I', 'output': 'O'},
        [{'S': ['label:a'], 'A': ['raise:E1'], 'B': ['raise:E2']}])
    add('rec_in_switch', {'nodes': {'I': P(('x', 'plain')), 'S': P(('p', 'in', 'I')), 'T': P(('p', 'in', 'I')),
                                    'D': P(('p', 'in', 'T')), 'A': P(('r', 'rec', {'start': 'T', 'dest': 'D', 'max': 1})),
                                    'B': P(('p', 'in', 'I')),
                                    'O': P(('c', 'switch', {'switch': 'S', 'cases': [['a', 'A'], ['b', 'B']], 'name': 'swr2'}))},
                          'input': 'I', 'output': 'O'})
    # one sub-pipeline reachable from two kinds of scope, the input choosing which (plain case vs one-of candidate)
    add('scope_mix_rec', {'nodes': {'I': P(('x', 'plain')), 'S': P(('p', 'in', 'I')), 'T': P(('p', 'in', 'I')), 'D': P(('p', 'in', 'T')),
                                    'PL': P(('r', 'rec', {'start': 'T', 'dest': 'D', 'max': 1})),
                                    'CA': P(('r', 'rec', {'start': 'T', 'dest': 'D', 'max': 1})), 'F': P(('p', 'in', 'I')),
                                    'G': P(('o', 'oneof', ['CA', 'F'])),
                                    'O': P(('c', 'switch', {'switch': 'S', 'cases': [['a', 'PL'], ['b', 'G']], 'name': 'swm'}))},
                          'input': 'I', 'output': 'O'},
        [{'S': ['label:b'], 'D': ['next', 'ok'], 'T': ['ok', 'raise:E1']}, {'S': ['label:a'], 'D': ['next', 'ok'], 'T': ['ok', 'raise:E1']}])
    add('scope_mix_plain', {'nodes': {'I': P(('x', 'plain')), 'S': P(('p', 'in', 'I')), 'T': P(('p', 'in', 'I')), 'D': P(('p', 'in', 'T')),
                                      'PL': P(('r', 'in', 'D')), 'CA': P(('r', 'in', 'D')), 'F': P(('p', 'in', 'I')),
                                      'G': P(('o', 'oneof', ['CA', 'F'])),
                                      'O': P(('c', 'switch', {'switch': 'S', 'cases': [['a', 'PL'], ['b', 'G']], 'name': 'swm'}))},
                            'input': 'I', 'output': 'O'})
    # --- max_iterations = 0
    add('rec_max0', {'nodes': {'I': P(('x', 'plain')), 'S': P(('p', 'in', 'I')), 'D': P(('p', 'in', 'S')),
                               'O': P(('r', 'rec', {'start': 'S', 'dest': 'D', 'max': 0}))}, 'input': 'I', 'output': 'O'},
        [{'D': ['next', 'ok']}, {'D': ['next0']}])
    add('rec_max0_default', {'nodes': {'I': P(('x', 'plain')), 'S': P(('p', 'in', 'I')), 'D': dict(P(('p', 'in', 'S')), use_default=True),
                                       'O': P(('r', 'rec', {'start': 'S', 'dest': 'D', 'max': 0}))}, 'input': 'I', 'output': 'O'},
        [{'D': ['next', 'ok']}, {'D': ['next0']}])
    # --- keyword-only parameters
    add('kwonly_rhombus', {'nodes': {'I': dict(P(('x', 'plain')), kwonly=True), 'A': dict(P(('p', 'in', 'I')), kwonly=True),
                                     'B': dict(P(('p', 'in', 'I')), kwonly=True, attempts=2), 'C': dict(P(('p', 'in', 'I')), kwonly=True),
                                     'O': dict(P(('a', 'in', 'A'), ('b', 'oneof', ['B', 'C'])), kwonly=True)}, 'input': 'I', 'output': 'O'},
        [{'B': ['raise:E1', 'ok']}, {'B': ['raise:E1', 'raise:E2']}])
    # --- a one-node pipeline given as build_dag(node, node)
    add('single', {'nodes': {'I': P(('x', 'plain'))}, 'input': 'I', 'output': 'I'}, [{'I': ['raise:E1']}, {'I': ['none']}])
    # --- nodes that declare no marks at all (and are not the input node): the builder links them to the input node
    # implicitly; they run after it, without arguments
    add('markless_source', {'nodes': {'I': P(('x', 'plain')), 'K': P(), 'A': P(('p', 'in', 'I'), ('k', 'in', 'K')), 'O': P(('a', 'in', 'A'))},
                            'input': 'I', 'output': 'O'}, [{'K': ['raise:E1']}, {'K': ['none']}])
    add('markless_case', {'nodes': {'I': P(('x', 'plain')), 'S': P(('p', 'in', 'I')), 'K': P(), 'B': P(('p', 'in', 'I')),
                                    'O': P(('c', 'switch', {'switch': 'S', 'cases': [['a', 'K'], ['b', 'B']], 'name': 'swk'}))},
                          'input': 'I', 'output': 'O'}, [{'S': ['label:a'], 'K': ['raise:E1']}])
    add('markless_candidate', {'nodes': {'I': P(('x', 'plain')), 'K': P(), 'B': P(('p', 'in', 'I')), 'O': P(('o', 'oneof', ['K', 'B']))},
                               'input': 'I', 'output': 'O'}, [{'K': ['raise:E1']}, {'K': ['raise:E1'], 'B': ['raise:E2']}])
    add('markless_in_rec', {'nodes': {'I': P(('x', 'plain')), 'T': P(('p', 'in', 'I')), 'K': P(), 'D': P(('p', 'in', 'T'), ('k', 'in', 'K')),
                                      'O': P(('r', 'rec', {'start': 'T', 'dest': 'D', 'max': 2}))},
                            'input': 'I', 'output': 'O'}, [{'D': ['next', 'ok']}, {'D': ['next', 'next', 'next']}])
    return E


def specs() -> t.List[dict]:
    return [sp for _, sp, _ in entries()]


def extra_plans(spec: dict) -> t.List[dict]:
    for _, sp, pl in entries():
        if sp == spec:
            return pl
    return []
