"""setup_cmd: sanity of the machinery itself (no verdict about the engine)."""
import sys

from mc import env  # noqa: F401
from mc import codegen
from mc import explore as X
from mc import ref as R
from mc import spec as S


def main() -> int:
    spec = S.normalise({'nodes': {
        'I': {'params': [['x', 'plain']]},
        'A': {'params': [['i', 'in', 'I']]},
        'B': {'params': [['i', 'in', 'I']], 'mode': 'thread'},
        'O': {'params': [['a', 'in', 'A'], ['b', 'in', 'B']]},
    }, 'input': 'I', 'output': 'O'})
    case = X.Case(spec, [{}])
    outs = set()
    st = X.explore(case, 1, on_exec=lambda x: outs.add((x.status, repr(x.outcomes[0][:2]))))
    ref = R.evaluate(spec, {})
    assert st.executions > 2 and len(outs) == 1, (st, outs)
    x = X.execute(case)
    assert x.outcomes[0][1] == ref.outcome[1], (x.outcomes, ref.outcome)
    a = X.execute(case, x.actions)
    assert a.digest() == x.digest(), 'replay of a recorded schedule diverged'
    print('selftest ok:', st)
    return 0


if __name__ == '__main__':
    sys.exit(main())
