"""Model-checking machinery for tochka-public/ml-pipeline-engine (see /verif/DESIGN.md)."""
