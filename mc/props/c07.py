"""C07: a chart is reusable — every run behaves like the first run of a fresh chart.

Engine E3: breadth-first search over run histories on ONE chart object. A state is the canonical deep
snapshot of everything the chart shares between runs (DAG graph nodes/edges/attributes, graph-level
attributes, node_map classes with their attribute dicts and annotations, DAG/chart fields, pool
registries); it is reached by replaying a history of (input, plan, schedule-policy) runs on a
freshly built chart. Every transition is compared with the same run on a fresh chart (outcome and
full trace digest), the snapshot after is compared with the snapshot before, and the caller's
input_kwargs with its copy. A second, un-deduplicated differential pass over all histories of
length <= depth cross-checks the completeness of the snapshot.
"""
import copy
import inspect
import itertools
import json
import types
import typing as t

from mc import codegen
from mc import corpus
from mc import enumerate as EN
from mc import explore as X
from mc import monitors as M
from mc import runner as RU
from mc import spec as S


def canon(v: t.Any, depth: int = 0) -> t.Any:
    if depth > 6:
        return '<deep>'
    if isinstance(v, (int, float, str, bool, type(None), bytes)):
        return repr(v)
    if isinstance(v, (list, tuple)):
        return [type(v).__name__] + [canon(x, depth + 1) for x in v]
    if isinstance(v, (set, frozenset)):
        return ['set'] + sorted(json.dumps(canon(x, depth + 1), sort_keys=True, default=repr) for x in v)
    if isinstance(v, dict):
        return {'dict': sorted((str(getattr(k, 'value', k)), json.dumps(canon(x, depth + 1), sort_keys=True, default=repr)) for k, x in v.items())}
    if inspect.isclass(v):
        return f'<class {v.__module__}.{v.__qualname__}>'
    if isinstance(v, (types.FunctionType, types.MethodType, staticmethod, classmethod)):
        f = getattr(v, '__func__', v)
        return ['fn', getattr(f, '__qualname__', '?'), canon(getattr(f, '__annotations__', {}), depth + 1),
                canon(getattr(f, '__defaults__', None), depth + 1), canon(getattr(f, '__kwdefaults__', None), depth + 1),
                canon({k: x for k, x in vars(f).items()}, depth + 1) if hasattr(f, '__dict__') else None]
    if hasattr(v, '__dataclass_fields__'):
        return [type(v).__name__, canon({k: getattr(v, k) for k in v.__dataclass_fields__}, depth + 1)]
    if hasattr(v, '__dict__') and not isinstance(v, types.ModuleType):
        return [type(v).__name__, canon({k: x for k, x in vars(v).items() if not k.startswith('__')}, depth + 1)]
    return f'<{type(v).__name__}>'


def class_snapshot(cls: t.Any) -> t.Any:
    out = []
    for c in inspect.getmro(cls):
        if c.__module__ in ('builtins', 'typing', 'abc'):
            continue
        items = []
        for k, v in sorted(vars(c).items()):
            if k in ('__dict__', '__weakref__', '__doc__', '__module__', '__qualname__', '_abc_impl', '__abstractmethods__',
                     '__parameters__', '__orig_bases__', '__protocol_attrs__', '_is_protocol', '__subclasshook__',
                     '_is_runtime_protocol', '__non_callable_proto_members__', '__firstlineno__', '__static_attributes__'):
                continue
            items.append((k, json.dumps(canon(v), sort_keys=True, default=repr)))
        out.append((f'{c.__module__}.{c.__qualname__}', items))
    return out


NX_KEYS = {'graph', 'adj', 'succ', 'pred', 'nodes', 'edges', 'in_edges', 'out_edges', 'degree', 'in_degree', 'out_degree',
           'is_recurrent', 'is_oneof', 'is_nested_oneof', 'source', 'dest', '__networkx_cache__'}


def snapshot(chart) -> str:
    from ml_pipeline_engine.parallelism import process_pool_registry
    from ml_pipeline_engine.parallelism import threads_pool_registry
    dag = chart.entrypoint
    g = dag.graph
    known = {'graph', 'node_map'}
    doc = dict(
        nodes=sorted((str(n), json.dumps(canon(dict(a)), sort_keys=True)) for n, a in g.nodes(data=True)),
        edges=sorted((str(a), str(b), json.dumps(canon(dict(d)), sort_keys=True)) for a, b, d in g.edges(data=True)),
        graph_attrs=canon(dict(g.graph)),
        graph_obj=canon({k: getattr(g, k, None) for k in ('is_recurrent', 'is_oneof', 'is_nested_oneof', 'source', 'dest')}),
        graph_extra_attrs=sorted(k for k in vars(g) if not k.startswith('_') and k not in NX_KEYS),
        node_map=sorted((k, class_snapshot(v)) for k, v in dag.node_map.items()),
        dag_fields=canon({k: v for k, v in vars(dag).items() if k not in known}),
        chart=canon({k: v for k, v in vars(chart).items() if k != 'entrypoint'}),
        pools=[id(threads_pool_registry._pool_executor), id(process_pool_registry._pool_executor),
               id(process_pool_registry._process_manager)],
    )
    return json.dumps(doc, sort_keys=True, default=repr)


def hidden_snapshot() -> str:
    """State outside the chart that could carry information from one run to the next: mutable module-level
    containers and class-level containers of the engine packages, sizes of functools caches. It is part of the
    search state (so that histories reaching a new hidden state are explored further) but a change of it is
    NOT a violation by itself: a cache is only wrong if a later run behaves differently, which the
    differential oracle decides."""
    import sys
    out = []
    for mname, mod in sorted(sys.modules.items()):
        if not (mname.startswith('ml_pipeline_engine') or mname.startswith('ml_pipeline_viewer')) or mod is None:
            continue
        for k, v in sorted(vars(mod).items()):
            if k.startswith('__'):
                continue
            if isinstance(v, (dict, list, set)) and not k.isupper():
                out.append((mname, k, type(v).__name__, len(v), json.dumps(canon(v), sort_keys=True, default=repr)[:2000]))
            elif callable(v) and hasattr(v, 'cache_info'):
                try:
                    out.append((mname, k, 'cache', v.cache_info().currsize))
                except Exception:  # noqa: BLE001
                    pass
            elif inspect.isclass(v) and getattr(v, '__module__', '') == mname:
                for ck, cv in sorted(vars(v).items()):
                    if isinstance(cv, (dict, list, set)) and not ck.startswith('__') and ck not in ('_abc_impl',):
                        out.append((mname, f'{k}.{ck}', type(cv).__name__, len(cv)))
    return json.dumps(out, default=repr)


def alphabet(spec: dict, tier: str, full: bool = False) -> t.List[tuple]:
    """(name, plan, inputs, policy) entries: success, labels, iteration counts, one failure per node class, two inputs."""
    q = tier == 'quick'
    out = []
    bases = EN.base_plans(spec)
    names = list(spec['nodes'])
    for i, b in enumerate(bases[: (3 if q else 8)]):
        out.append((f'ok{i}', b, {'x': 1}, 'first'))
    out.append(('ok-last', bases[0], {'x': 1}, 'last'))
    out.append(('ok-x2', bases[-1], {'x': 2}, 'first'))
    fail_nodes = names if not q else [names[0], names[len(names) // 2], names[-1]]
    for n in dict.fromkeys(fail_nodes):
        pl = dict(bases[-1])
        pl[n] = (pl[n][:-1] if n in pl and pl[n][0] in ('next', 'next0') else []) + ['raise:E1']
        out.append((f'fail-{n}', pl, {'x': 1}, 'first'))
    if any(nd.get('use_default') for nd in spec['nodes'].values()):
        # the same failure with another input: a fallback value must be computed from THIS run's arguments
        for n, nd in spec['nodes'].items():
            if nd.get('use_default'):
                pl = dict(bases[-1])
                pl[n] = (pl[n][:-1] if n in pl and pl[n][0] in ('next', 'next0') else []) + ['raise:E1']
                out.insert(2, (f'fail-x2-{n}', pl, {'x': 2}, 'first'))
                out.insert(2, (f'fail-x1-{n}', pl, {'x': 1}, 'first'))
    if 'oneof' in S.kinds_used(spec):
        for n, nd in spec['nodes'].items():
            for kw, kind, arg in nd['params']:
                if kind == 'oneof':
                    out.append((f'fallback-{arg[0]}', dict(bases[0], **{arg[0]: ['raise:E1']}), {'x': 1}, 'first'))
    if full:
        out += [(f'p{i}', pl, {'x': 1}, 'first') for i, pl in enumerate((EN.plans(spec) + corpus.extra_plans(spec))[:80])]
    seen = set()
    res = []
    for e in out:
        k = json.dumps(e[1:], sort_keys=True)
        if k not in seen:
            seen.add(k)
            res.append(e)
    return res


def do_run(spec: dict, chart, entry: tuple):
    name, plan, inputs, policy = entry
    case = X.Case(spec, [plan], inputs=[inputs])
    x = X.execute(case, chart=chart, policy=policy)
    return x


def fresh_chart(spec: dict):
    codegen.unload(spec)          # fresh node classes too: state could live in class attributes
    return codegen.chart(spec)


MAX_NEW_STATES_PER_DEPTH = 6


def work(arg: tuple) -> dict:
    tier, fam, spec = arg
    depth = 2 if tier == 'quick' else 3
    alpha = alphabet(spec, tier, full=(fam.startswith('corpus') and len(S.kinds_used(spec)) >= 2))
    out = dict(states=0, transitions=0, runs=0, viol=[], sample=None, alphabet=len(alpha))
    tags = sorted(S.static_tags(spec))
    # reference: every alphabet entry on a fresh chart
    fresh = {}
    for e in alpha:
        x = do_run(spec, fresh_chart(spec), e)
        out['runs'] += 1
        fresh[e[0]] = (M.outcome_class(x), x.digest(), x.status)

    def report(sym: str, detail: str, hist: list) -> None:
        out['viol'].append(dict(symptom=sym, detail=detail, history=[h[0] for h in hist],
                                case=dict(spec=spec, history=[list(h) for h in hist]), key=S.spec_hash(spec) + '-' + sym,
                                tags=tags, source=codegen.render(spec)))

    def build(hist: t.Sequence[tuple]):
        chart = fresh_chart(spec)
        for e in hist:
            do_run(spec, chart, e)
            out['runs'] += 1
        return chart

    # --- BFS over histories, deduplicated on the snapshot
    init = snapshot(build(()))
    seen = {(init, hidden_snapshot())}
    frontier: t.List[tuple] = [()]
    for d in range(depth):
        nxt = []
        for hist in frontier:
            if len(out['viol']) >= 3:
                break       # enough counterexamples for this program; do not spend the budget on a broken tree
            for e in alpha:
                chart = build(hist)
                before = snapshot(chart)
                given = copy.deepcopy(e[2])
                case = X.Case(spec, [e[1]], inputs=[e[2]])
                x = X.execute(case, chart=chart, policy=e[3])
                out['runs'] += 1
                out['transitions'] += 1
                got = (M.outcome_class(x), x.digest(), x.status)
                if got[0] != fresh[e[0]][0] or got[2] != fresh[e[0]][2]:
                    report('run-differs-from-fresh-chart',
                           f'after {[h[0] for h in hist]}, run {e[0]}: {got[0]} on the shared chart, {fresh[e[0]][0]} on a fresh chart', list(hist) + [e])
                elif got[1] != fresh[e[0]][1]:
                    report('trace-differs-from-fresh-chart',
                           f'after {[h[0] for h in hist]}, run {e[0]}: same outcome but a different trace than on a fresh chart', list(hist) + [e])
                for sym_, det_ in M.m_anomalies(x):
                    report(sym_, f'run {e[0]}: {det_}', list(hist) + [e])
                if x.input_copies[0] != given:
                    report('input-kwargs-mutated', f'run {e[0]}: caller dict became {x.input_copies[0]!r}', list(hist) + [e])
                if x.meta_copies[0] != {'tenant': 't', 'trace': [1, 2]}:
                    report('input-kwargs-mutated', f'run {e[0]}: caller meta dict became {x.meta_copies[0]!r}', list(hist) + [e])
                after = snapshot(chart)
                if after != before:
                    diff = _diff(before, after)
                    report('chart-state-changed', f'after {[h[0] for h in hist]}, run {e[0]} changed the chart: {diff}', list(hist) + [e])
                key = (after, hidden_snapshot())
                if key not in seen:
                    seen.add(key)
                    nxt.append(tuple(hist) + (e,))
        if len(nxt) > MAX_NEW_STATES_PER_DEPTH:
            # only reachable when runs keep producing new (hidden) states, i.e. never on a tree where the property holds
            out['capped'] = out.get('capped', 0) + len(nxt) - MAX_NEW_STATES_PER_DEPTH
            nxt = nxt[:MAX_NEW_STATES_PER_DEPTH]
        frontier = nxt
        if not frontier:
            break
    out['states'] = len(seen)
    # --- differential pass without deduplication (completeness of the snapshot is not assumed)
    small = alpha[: (4 if tier == 'quick' else 6)]
    for L in range(2, depth + 1):
        for hist in itertools.product(small, repeat=L):
            if len(out['viol']) >= 3:
                break
            chart = build(hist[:-1])
            e = hist[-1]
            x = do_run(spec, chart, e)
            out['runs'] += 1
            out['transitions'] += 1
            got = (M.outcome_class(x), x.digest(), x.status)
            if got[0] != fresh[e[0]][0] or got[2] != fresh[e[0]][2] or got[1] != fresh[e[0]][1]:
                report('run-differs-from-fresh-chart',
                       f'after {[h[0] for h in hist[:-1]]}, run {e[0]}: {got[0]} on the shared chart, {fresh[e[0]][0]} on a fresh chart (differential pass)', list(hist))
    # --- persistent-store pass: the caller omits pipeline_id (as in the documented usage) and the chart's artifact store is
    # write-once and outlives the runs, keyed like the filesystem store by (pipeline id, node id): run k must still behave
    # like the first run of a fresh chart with an empty store, and no two runs may get the same generated id
    pc = {'store': 'rec', 'omit_pipeline_id': True}

    def prun(chart, e: tuple, persist: dict):
        case = X.Case(spec, [e[1]], inputs=[e[2]], collab=dict(pc))
        return X.execute(case, chart=chart, policy=e[3], world_hook=lambda w, lp: setattr(w, 'persist', persist))

    psmall = small[:3]
    pfresh = {}
    for e in psmall:
        codegen.unload(spec)
        x = prun(codegen.chart(spec, pc), e, {})
        out['runs'] += 1
        pfresh[e[0]] = (M.outcome_class(x), x.status)
    for L in range(2, depth + 1):
        for hist in itertools.product(psmall, repeat=L):
            if len(out['viol']) >= 3:
                break
            codegen.unload(spec)
            chart = codegen.chart(spec, pc)
            persist: dict = {}
            ids = []
            for e in hist:
                x = prun(chart, e, persist)
                out['runs'] += 1
                ids += [pid for _, pid in x.world.pipeline_ids]
            out['transitions'] += 1
            e = hist[-1]
            got = (M.outcome_class(x), x.status)
            if got != pfresh[e[0]]:
                report('run-differs-from-fresh-chart',
                       f'after {[h[0] for h in hist[:-1]]} with a persistent write-once store and pipeline_id omitted, run {e[0]}: {got[0]}; '
                       f'{pfresh[e[0]][0]} on a fresh chart with an empty store', list(hist))
            if len(set(ids)) != len(ids) or len(ids) != L:
                report('pipeline-id-reused', f'generated pipeline ids of {L} runs on one chart: {len(set(ids))} distinct of {len(ids)}', list(hist))
    out['sample'] = dict(family=fam, spec=spec, alphabet=[a[0] for a in alpha], snapshot_states=len(seen))
    codegen.unload(spec)
    return out


def _diff(a: str, b: str) -> str:
    da, db = json.loads(a), json.loads(b)
    out = []
    for k in da:
        if da[k] != db.get(k):
            out.append(f'{k}: {json.dumps(da[k])[:150]} -> {json.dumps(db.get(k))[:150]}')
    return '; '.join(out)[:500]


def run(prop: str, tier: str, seed: int) -> dict:
    q = tier == 'quick'
    items = [(tier, 'corpus', sp) for sp in corpus.specs()]
    for f in ['plain', 'switch', 'oneof', 'rec', 'mix']:
        for sp in EN.family(f, tier):
            if len(sp['nodes']) <= (4 if q else 5) or f in ('oneof',) and len(sp['nodes']) <= 5:
                items.append((tier, f, sp))
    # build_node-derived variants (the generated class and build_node's closure are state shared between runs, too)
    extra = []
    for t_, fam_, sp_ in items:
        if fam_ == 'corpus' or fam_ == 'rec' or len(sp_['nodes']) <= 3:
            g = json.loads(json.dumps(sp_))
            elig = [n for n, nd in g['nodes'].items() if n != g['input'] and not nd.get('rec') and any(p[1] != 'plain' for p in nd['params'])]
            if elig and (q is False or len(g['nodes']) <= 5):
                for n in elig:
                    g['nodes'][n]['generic'] = True
                extra.append((t_, fam_ + '-generic', g))
    items += extra
    tot = dict(states=0, transitions=0, runs=0, capped=0)
    viol: t.List[dict] = []
    samples = []
    maxalpha = 0
    for res in RU.pmap(work, RU.shuffled(items, seed), chunksize=2):
        if isinstance(res, tuple) and res and res[0] == '__error__':
            return dict(coverage={}, violations=[], internal=[f'{res[1]}\n{res[2]}'])
        for k in tot:
            tot[k] += res.get(k, 0)
        viol += res['viol']
        maxalpha = max(maxalpha, res['alphabet'])
        if res['sample'] and len(samples) < 3 and len(res['sample']['spec']['nodes']) >= 4:
            samples.append(res['sample'])
    viol.sort(key=lambda v: (len(v['history']), len(json.dumps(v['case'], default=repr)), v['key']))
    cov = dict(programs=len(items), states=max(tot['states'], 1), transitions=max(tot['transitions'], 1), evaluations=tot['runs'],
               traces_validated_against_impl=tot['runs'], depth=2 if q else 3, max_alphabet=maxalpha, caps_hit=tot['capped'],
               exhaustive=tot['capped'] == 0, samples=samples,
               rule='per program: BFS over run histories on one chart object, state = canonical deep snapshot of the chart (dedup), '
                    'alphabet = (input, plan, schedule policy) entries; every transition compared with a fresh chart (outcome class and '
                    'full trace digest), snapshot-before == snapshot-after, caller dict unchanged; plus an un-deduplicated differential '
                    'pass over all histories up to the depth bound. If every transition returns to the initial snapshot, all finite '
                    'histories are covered by induction provided the snapshot is complete, which the differential pass cross-checks.')
    return dict(coverage=cov, violations=viol, level='model_checking',
                assumptions=['snapshot covers DAG graph/attributes, node_map classes (whole MRO outside builtins/typing), DAG and chart fields, pool registries',
                             'two fixed d=0 schedule policies per run (first / last enabled completion)'])
