"""C15: build_dag is a faithful translation of the declared dependencies.

Bounded-exhaustive enumeration (engine E2, no event loop): for every generated program, every
parameter order within each node, and build_node-derived variants, the DAG built by the real
build_dag is compared with a relation computed independently from the spec.
"""
import itertools
import json
import typing as t

from mc import codegen
from mc import corpus
from mc import enumerate as EN
from mc import runner as RU
from mc import spec as S


_ANON: t.Dict[str, str] = {}


def nid(n: str) -> str:
    # nodes declared without a `name` get 'processor__<module>_<class>' (set per spec by expected())
    return _ANON.get(n) or f'processor__{n}'


def expected(spec: dict) -> dict:
    """Nodes with attributes, edges with attributes, node_map keys, input/output ids — from the spec only."""
    nodes: t.Dict[str, dict] = {}
    edges: t.Dict[tuple, dict] = {}
    inp, out = spec['input'], spec['output']
    _ANON.clear()
    for n_, nd_ in spec['nodes'].items():
        if nd_.get('anon'):
            _ANON[n_] = f'processor__mcgen_{S.spec_hash(spec)}_{n_}'
    seen = {out}
    stack = [out]
    real: t.Set[str] = {inp}

    def node(i: str, **attrs) -> None:
        nodes.setdefault(i, {}).update(attrs)

    def edge(a: str, b: str, **attrs) -> None:
        node(a)
        node(b)
        if (a, b) in edges:
            if {k: v for k, v in edges[(a, b)].items() if k != '_dup'} == attrs:
                return      # the same mark declared again (a named switch shared by several consumers): idempotent
            edges[(a, b)] = dict(edges[(a, b)], **attrs, _dup=True)
        else:
            edges[(a, b)] = attrs

    def visit(n: str) -> None:
        real.add(n)
        if n not in seen:
            seen.add(n)
            stack.append(n)

    if inp == out:
        node(nid(inp))
    while stack:
        cur = stack.pop()
        real.add(cur)
        marks = [(kw, kind, arg) for kw, kind, arg in spec['nodes'][cur]['params'] if kind != 'plain']
        if not marks and cur != inp:
            edge(nid(inp), nid(cur))
            visit(inp)
        for idx, (kw, kind, arg) in enumerate(marks):
            if kind == 'in':
                edge(nid(arg), nid(cur), kwarg_name=kw)
                visit(arg)
            elif kind == 'rec':
                node(nid(arg['dest']), start_node=nid(arg['start']), max_iterations=arg['max'])
                edge(nid(arg['dest']), nid(cur), kwarg_name=kw)
                visit(arg['dest'])
            elif kind == 'oneof':
                syn = f'input_one_of__{idx}___{nid(cur)}'
                node(syn, is_oneof=True, oneof_nodes=[nid(c) for c in arg])
                edge(nid(inp), syn)
                for c in arg:
                    node(nid(c), is_oneof_child=True)
                    edge(nid(c), syn)
                    visit(c)
                edge(syn, nid(cur), kwarg_name=kw)
            elif kind == 'switch':
                syn = f'switch__{arg["name"]}' if arg.get('name') else ('switch__?', cur, kw)
                node(syn, is_switch=True)
                edge(nid(arg['switch']), syn, is_switch=True)
                visit(arg['switch'])
                for label, c in arg['cases']:
                    edge(nid(c), syn, case_branch=label)
                    visit(c)
                edge(syn, nid(cur), kwarg_name=kw)
    return dict(nodes=nodes, edges=edges, node_map=sorted(nid(n) for n in real), input=nid(inp), output=nid(out))


def observed(dag) -> dict:
    def clean(d: dict) -> dict:
        return {(k.value if hasattr(k, 'value') else k): v for k, v in d.items()}
    return dict(nodes={n: clean(a) for n, a in dag.graph.nodes(data=True)},
                edges={(a, b): clean(d) for a, b, d in dag.graph.edges(data=True)},
                node_map=sorted(dag.node_map), input=dag.input_node, output=dag.output_node)


def compare(exp: dict, obs: dict) -> t.List[str]:
    out = []
    # rename unnamed switch nodes (uuid-suffixed) by matching on (consumer, kwarg)
    ren = {}
    for n in exp['nodes']:
        if isinstance(n, tuple):
            _, cur, kw = n
            cands = [a for (a, b), d in obs['edges'].items() if b == nid(cur) and d.get('kwarg_name') == kw and str(a).startswith('switch__')]
            if len(cands) == 1:
                ren[n] = cands[0]
    def r(x):
        return ren.get(x, x)
    en = {r(n): a for n, a in exp['nodes'].items()}
    ee = {(r(a), r(b)): {k: v for k, v in d.items()} for (a, b), d in exp['edges'].items()}
    if set(en) != set(obs['nodes']):
        out.append(f'node set differs: missing {sorted(map(str, set(en) - set(obs["nodes"])))}, extra {sorted(map(str, set(obs["nodes"]) - set(en)))}')
    for n in set(en) & set(obs['nodes']):
        a, b = en[n], {k: v for k, v in obs['nodes'][n].items()}
        if a != b:
            out.append(f'node {n}: attributes {b}, expected {a}')
    if set(ee) != set(obs['edges']):
        out.append(f'edge set differs: missing {sorted(map(str, set(ee) - set(obs["edges"])))}, extra {sorted(map(str, set(obs["edges"]) - set(ee)))}')
    for e in set(ee) & set(obs['edges']):
        a = dict(ee[e])
        dup = a.pop('_dup', False)
        if dup:
            out.append(f'edge {e}: two declared dependencies share one edge (one parameter is merged/dropped)')
        elif a != obs['edges'][e]:
            out.append(f'edge {e}: attributes {obs["edges"][e]}, expected {a}')
    if exp['node_map'] != obs['node_map']:
        out.append(f'node_map keys {obs["node_map"]}, expected {exp["node_map"]}')
    if (exp['input'], exp['output']) != (obs['input'], obs['output']):
        out.append(f'input/output {obs["input"], obs["output"]}')
    return out


def variants(spec: dict, tier: str) -> t.Iterator[t.Tuple[str, dict]]:
    yield 'as-declared', spec
    # every permutation of parameter order within each node (all nodes permuted jointly per choice)
    names = [n for n, nd in spec['nodes'].items() if len(nd['params']) > 1]
    choices = [list(itertools.permutations(range(len(spec['nodes'][n]['params'])))) for n in names]
    k = 0
    for combo in itertools.product(*choices):
        if all(c == tuple(range(len(c))) for c in combo):
            continue
        k += 1
        if k > (6 if tier == 'quick' else 40):
            break
        sp = json.loads(json.dumps(spec))
        for n, perm in zip(names, combo):
            ps = sp['nodes'][n]['params']
            sp['nodes'][n]['params'] = [ps[i] for i in perm]
        yield f'param-order-{k}', sp
    # build_node-derived generic variants: each non-input, non-recurrent-destination node in turn, and all at once
    gen_ok = [n for n, nd in spec['nodes'].items() if n != spec['input'] and not nd.get('rec')
              and any(p[1] != 'plain' for p in nd['params'])
              and not any(p[0] == 'additional_data' for p in nd['params'])]
    for n in gen_ok[: (2 if tier == 'quick' else 99)]:
        sp = json.loads(json.dumps(spec))
        sp['nodes'][n]['generic'] = True
        yield f'generic-{n}', sp
    if len(gen_ok) >= 2:
        sp = json.loads(json.dumps(spec))
        for n in gen_ok:
            sp['nodes'][n]['generic'] = 'SharedBase'
        yield 'generic-shared-base', sp
    inh = S.with_inheritance(spec)
    if inh is not None:
        yield 'class-inheritance', inh
    # nodes that declare no marks: a node whose only mark is Input(<input node>) loses it; the builder must link it to the
    # input node implicitly (and only such nodes)
    ml = [n for n, nd in spec['nodes'].items() if n != spec['input'] and not nd.get('rec')
          and [p[1:] for p in nd['params'] if p[1] != 'plain'] == [['in', spec['input']]]]
    for n in ml[: (2 if tier == 'quick' else 99)] + (['*'] if len(ml) >= 2 else []):
        sp = json.loads(json.dumps(spec))
        for m in (ml if n == '*' else [n]):
            sp['nodes'][m]['params'] = [p for p in sp['nodes'][m]['params'] if p[1] == 'plain']
        yield f'markless-{n}', sp
    # every declared parameter keyword-only
    sp = json.loads(json.dumps(spec))
    for nd in sp['nodes'].values():
        if not nd.get('generic'):
            nd['kwonly'] = True
    yield 'kwonly-params', sp
    # node classes without a `name` attribute (ids derived from module and class name): one node, and all nodes
    plain_cls = [n for n, nd in spec['nodes'].items() if not nd.get('generic') and not nd.get('instance_of')]
    for n in plain_cls[:1] + ['*']:
        sp = json.loads(json.dumps(spec))
        for m in (plain_cls if n == '*' else [n]):
            sp['nodes'][m]['anon'] = True
        yield f'anon-{n}', sp
    shared = S.share_switch_names(spec)
    if shared is not None:
        yield 'shared-named-switch', shared
    # unnamed switches (uuid-suffixed ids)
    if 'switch' in S.kinds_used(spec):
        sp = json.loads(json.dumps(spec))
        for nd in sp['nodes'].values():
            for p in nd['params']:
                if p[1] == 'switch':
                    p[2]['name'] = None
        yield 'unnamed-switch', sp


def graph_key(obs: dict) -> str:
    """Order-independent canonical form (one-of ids embed the parameter index: strip it)."""
    import re
    def norm(s):
        return re.sub(r'input_one_of__\d+___', 'input_one_of__#___', str(s))
    return json.dumps([sorted((norm(n), sorted((k, str(v)) for k, v in a.items())) for n, a in obs['nodes'].items()),
                       sorted((norm(a), norm(b), sorted((k, str(v)) for k, v in d.items())) for (a, b), d in obs['edges'].items())])


def work(arg: tuple) -> dict:
    tier, fam, spec = arg
    out = dict(programs=0, builds=0, viol=[], sample=None)
    tags = sorted(S.static_tags(spec))
    base_key = None
    for vname, sp in variants(spec, tier):
        out['builds'] += 1
        try:
            dag = codegen.build(sp)
        except Exception as e:  # noqa: BLE001
            out['viol'].append(dict(symptom='valid-program-rejected', detail=f'{vname}: build_dag raised {type(e).__name__}: {e}',
                                    case=dict(spec=sp), key=S.spec_hash(sp), tags=tags, source=codegen.render(sp)))
            codegen.unload(sp)
            continue
        obs = observed(dag)
        diffs = compare(expected(sp), obs)
        if vname == 'as-declared':
            base_key = graph_key(obs)
            out['sample'] = dict(family=fam, spec=sp, nodes=len(obs['nodes']), edges=len(obs['edges']))
        elif vname.startswith('param-order') and base_key is not None and graph_key(obs) != base_key and not diffs:
            diffs.append('built graph depends on parameter order')
        for dmsg in diffs[:3]:
            sym = 'graph-dup-edge' if 'share one edge' in dmsg else 'graph-differs'
            out['viol'].append(dict(symptom=sym, detail=f'{vname}: {dmsg}', case=dict(spec=sp), key=S.spec_hash(sp),
                                    tags=tags, source=codegen.render(sp)))
        codegen.unload(sp)
    out['programs'] = 1
    return out


def run(prop: str, tier: str, seed: int) -> dict:
    fams = ['plain', 'switch', 'oneof', 'rec', 'mix', 'overlap', 'twice', 'recx', 'switchx', 'oneofx'] + ([] if tier == 'quick' else ['plain7'])
    items = [(tier, 'corpus', sp) for sp in corpus.specs()]
    for f in fams:
        items += [(tier, f, sp) for sp in EN.family(f, tier)]
    tot = dict(programs=0, builds=0)
    viol: t.List[dict] = []
    samples = []
    for res in RU.pmap(work, RU.shuffled(items, seed), chunksize=8):
        if isinstance(res, tuple) and res and res[0] == '__error__':
            return dict(coverage={}, violations=[], internal=[f'{res[1]}\n{res[2]}'])
        tot['programs'] += res['programs']
        tot['builds'] += res['builds']
        viol += res['viol']
        if res['sample'] and len(samples) < 3:
            samples.append(res['sample'])
    viol.sort(key=lambda v: (len(json.dumps(v['case'])), v['key']))
    cov = dict(programs=tot['programs'], states=tot['programs'], transitions=tot['builds'], evaluations=tot['builds'],
               traces_validated_against_impl=tot['builds'], exhaustive=True, samples=samples,
               rule='states = distinct canonical programs (isomorphism classes per family and size bound); transitions = '
                    'build_dag invocations (declared order, parameter-order permutations, build_node-derived variants, '
                    'unnamed switches); each built DiGraph/node_map is compared with the relation computed from the spec')
    return dict(coverage=cov, violations=viol, level='model_checking',
                assumptions=['program bound as in the family definitions (DESIGN 2.6)', 'expected relation computed by mc/props/c15.py:expected'])
