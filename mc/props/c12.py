"""C12: retry and default policy is applied exactly as configured.

Engine E1: the configuration grid (attempts x delay x exceptions x use_default) x every per-attempt
outcome sequence x host shapes, all interleavings of the retry timer with sibling completions
(timers are externals of the controlled loop; the clock is virtual so delays are exact).
"""
import itertools
import json
import typing as t

from mc import codegen
from mc import explore as X
from mc import monitors as M
from mc import ref as R
from mc import runner as RU
from mc import spec as S


def P(*params) -> dict:
    return {'params': [list(p) for p in params]}


def hosts(tier: str) -> t.Dict[str, dict]:
    h = {
        'alone': {'nodes': {'I': P(('x', 'plain')), 'R': P(('p', 'in', 'I')), 'O': P(('r', 'in', 'R'))}, 'input': 'I', 'output': 'O'},
        'sibling': {'nodes': {'I': P(('x', 'plain')), 'R': P(('p', 'in', 'I')), 'B': P(('p', 'in', 'I')),
                              'O': P(('r', 'in', 'R'), ('b', 'in', 'B'))}, 'input': 'I', 'output': 'O'},
        'oneof': {'nodes': {'I': P(('x', 'plain')), 'R': P(('p', 'in', 'I')), 'B': P(('p', 'in', 'I')),
                            'O': P(('o', 'oneof', ['R', 'B']))}, 'input': 'I', 'output': 'O'},
        'recstart': {'nodes': {'I': P(('x', 'plain')), 'R': P(('p', 'in', 'I')), 'D': P(('p', 'in', 'R')),
                               'O': P(('r', 'rec', {'start': 'R', 'dest': 'D', 'max': 1}))}, 'input': 'I', 'output': 'O'},
    }
    # a retrying node outside a recurrent subgraph that reads a node inside it: the subgraph may re-execute that node while
    # the reader sleeps between attempts; its attempts must still all get the same arguments
    h['outside-reader'] = {'nodes': {'I': P(('x', 'plain')), 'S': P(('p', 'in', 'I')), 'D': P(('p', 'in', 'S')), 'R': P(('p', 'in', 'S')),
                                     'O': P(('r', 'in', 'R'), ('d', 'rec', {'start': 'S', 'dest': 'D', 'max': 1}))}, 'input': 'I', 'output': 'O'}
    # the retrying node's class derives from another node class of the pipeline that has different retry settings and runs first
    h['inherits'] = {'nodes': {'I': P(('x', 'plain')), 'B': dict(P(('p', 'in', 'I')), attempts=2, delay=0.3, exceptions=['E2']),
                               'R': dict(P(('p', 'in', 'B')), extends='B'), 'O': P(('r', 'in', 'R'))}, 'input': 'I', 'output': 'O'}
    # the retrying node is the DESTINATION of a recurrent subgraph: exhausted iterations use the same default policy
    h['recdest'] = {'nodes': {'I': P(('x', 'plain')), 'T': P(('p', 'in', 'I')), 'R': P(('p', 'in', 'T')),
                              'O': P(('r', 'rec', {'start': 'T', 'dest': 'R', 'max': 1}))}, 'input': 'I', 'output': 'O'}
    # the retrying node is constructed through its default_factory (constructor argument only the factory supplies): every
    # attempt and get_default must run on a factory-built instance
    h['factory'] = {'nodes': {'I': P(('x', 'plain')), 'R': dict(P(('p', 'in', 'I')), factory=True), 'O': P(('r', 'in', 'R'))},
                    'input': 'I', 'output': 'O'}
    if tier != 'quick':
        h['output'] = {'nodes': {'I': P(('x', 'plain')), 'R': P(('p', 'in', 'I'))}, 'input': 'I', 'output': 'R'}
        h['two-retrying'] = {'nodes': {'I': P(('x', 'plain')), 'R': P(('p', 'in', 'I')),
                                       'B': dict(P(('p', 'in', 'I')), attempts=2, delay=0.3),
                                       'O': P(('r', 'in', 'R'), ('b', 'in', 'B'))}, 'input': 'I', 'output': 'O'}
        h['case'] = {'nodes': {'I': P(('x', 'plain')), 'S': P(('p', 'in', 'I')), 'R': P(('p', 'in', 'I')), 'B': P(('p', 'in', 'I')),
                               'O': P(('c', 'switch', {'switch': 'S', 'cases': [['a', 'R'], ['b', 'B']], 'name': 'sw'}))},
                     'input': 'I', 'output': 'O'}
    return h


def configs(tier: str) -> t.List[dict]:
    q = tier == 'quick'
    out = []
    for attempts in ([None, 0, 1, 2, 3]):      # 0 is falsy: the engine documents 'attempts or 1'
        for delay in ([None, 0.5] if q else [None, 0, 0.5]):
            for exceptions in ([None, ['E1']] if q else [None, ['E1'], ['E1', 'E2']]):
                for use_default in (False, True):
                    out.append(dict(attempts=attempts, delay=delay, exceptions=exceptions, use_default=use_default))
                # get_default itself raises: the node then has no value and fails
                if delay is None and (attempts in (None, 2)):
                    out.append(dict(attempts=attempts, delay=delay, exceptions=exceptions, use_default=True, default_raises=True))
    return out


def sequences(attempts: t.Optional[int], tier: str) -> t.List[t.List[str]]:
    a = attempts or 1
    fails = ['raise:E1', 'raise:E2'] + ([] if tier == 'quick' and a >= 3 else ['raise:Fatal'])
    out = []
    for k in range(a + 1):
        for combo in itertools.product(fails, repeat=k):
            # the element after the last configured attempt is 'ok': an engine that over-retries succeeds where it must fail
            out.append(list(combo) + ['ok'])
    return out


def host_plans(host: str, seq: t.List[str]) -> t.List[dict]:
    if host == 'sibling':
        return [{'R': seq}, {'R': seq, 'B': ['raise:E2']}]
    if host == 'two-retrying':
        return [{'R': seq, 'B': ['raise:E2', 'ok']}, {'R': seq, 'B': ['raise:E2']}]
    if host == 'oneof':
        return [{'R': seq}, {'R': seq, 'B': ['raise:E2']}]
    if host == 'recstart':
        return [{'R': ['ok'] + seq, 'D': ['next', 'ok']}, {'R': seq, 'D': ['next', 'ok']}]
    if host == 'outside-reader':
        return [{'R': seq, 'D': ['next', 'ok']}, {'R': seq}]
    if host == 'recdest':
        return [{'R': ['next', 'next', 'next']}, {'R': ['next'] + seq}, {'R': seq}]
    if host == 'case':
        return [{'R': seq, 'S': ['label:a']}]
    return [{'R': seq}]


MONS = ['term', 'outcome', 'kwargs', 'counts', 'left', 'events']


def work(arg: tuple) -> dict:
    tier, host, cfg, mode = arg
    base = hosts(tier)[host]
    sp = json.loads(json.dumps(base))
    sp['nodes']['R'].update({k: v for k, v in cfg.items() if v is not None and v is not False})
    sp = S.normalise(sp)
    for nd in sp['nodes'].values():
        nd['mode'] = mode
    out = dict(cases=0, executions=0, transitions=0, states=0, viol=[], internal=[], sample=None)
    bound = 0 if tier == 'quick' else 1
    if host == 'recdest' and cfg.get('default_raises') and cfg['attempts']:
        # a raising get_default of an exhausted destination is itself retried by the engine (get_default called attempts + 1
        # times, one on_node_complete each); neither C12 nor C14 says anything about a failing get_default being retried,
        # so this corner is not judged
        return out
    for seq in sequences(cfg['attempts'], tier):
        for plan in host_plans(host, seq):
            case = X.Case(sp, [plan], fam=f'retry-{host}')
            ref = R.evaluate(sp, plan, case.inputs[0])
            states: t.Set[int] = set()
            classes = set()
            viols: t.Dict[str, list] = {}

            def on_exec(x) -> None:
                for sym, detail in RU.apply_monitors(x, ref, case, MONS) + M.m_retry(x, ref, sp):
                    viols.setdefault(sym, [0, detail, list(x.actions)])[0] += 1
                classes.add(M.outcome_class(x, 0, ref))
                states.update(RU.qstates(x))

            try:
                st = X.explore(case, bound, on_exec=on_exec, limit=5000)
            except X.ReplayDivergence as e:
                out['internal'].append(str(e))
                continue
            out['cases'] += 1
            out['executions'] += st.executions
            out['transitions'] += st.transitions
            out['states'] += len(states)
            if len(classes) > 1:
                viols['outcome-varies'] = [len(classes), f'outcome depends on the schedule: {sorted(map(repr, classes))}', []]
            if out['sample'] is None and len(seq) > 1:
                out['sample'] = dict(host=host, config=cfg, mode=mode, plan=plan, executions=st.executions, reference=repr(ref.outcome)[:200])
            for sym, (cnt, detail, actions) in viols.items():
                out['viol'].append(dict(symptom=sym, detail=detail, schedule=actions, case=case.describe(), key=case.key(),
                                        tags=sorted(ref.tags), source=codegen.render(sp), config=cfg, host=host))
    codegen.unload(sp)
    return out


def run(prop: str, tier: str, seed: int) -> dict:
    modes = ['async', 'thread'] if tier != 'quick' else ['async', 'thread']
    items = [(tier, h, c, m) for h in hosts(tier) for c in configs(tier) for m in modes]
    tot = dict(cases=0, executions=0, transitions=0, states=0)
    viol: t.List[dict] = []
    internal: t.List[str] = []
    samples = []
    for res in RU.pmap(work, RU.shuffled(items, seed), chunksize=2):
        if isinstance(res, tuple) and res and res[0] == '__error__':
            internal.append(f'{res[1]}\n{res[2]}')
            continue
        for k in tot:
            tot[k] += res[k]
        viol += res['viol']
        internal += res['internal']
        if res['sample'] and len(samples) < 4:
            samples.append(res['sample'])
    viol.sort(key=lambda v: (len(json.dumps(v['case'], default=repr)), v['key'], v['symptom']))
    cov = dict(configurations=len(items), cases=tot['cases'], executions=tot['executions'], evaluations=tot['executions'],
               states=max(tot['states'], 1), transitions=max(tot['transitions'], 1), traces_validated_against_impl=tot['executions'],
               deviation_bound_completed=0 if tier == 'quick' else 1, exhaustive=True, samples=samples,
               hosts=sorted(hosts(tier)),
               rule='cases = host shape x (attempts, delay, exceptions, use_default) x per-attempt outcome sequence (failures over '
                    '{E1, E2, Fatal} followed by ok, so over-retrying changes the outcome) x sibling plan x execution mode; every '
                    'interleaving of the retry timer with the other completions within the deviation bound is executed; delays are '
                    'measured on the virtual clock')
    return dict(coverage=cov, violations=viol, internal=internal, level='model_checking',
                assumptions=['virtual clock: only timers advance time', 'bodies are deterministic functions of (arguments, invocation index)'])
