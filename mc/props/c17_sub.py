"""Subprocess side of C17 parts B and C (fresh interpreter: pool registries are process-wide singletons).

stdin: JSON {"mode": "registry"|"realpools", "state": ..., "cases": [{"spec": ..., "id": ...}]}
stdout: JSON list of {"id", "outcome": [kind, repr], "bodies": n}
"""
import asyncio
import json
import os
import sys
import tempfile

from mc import env  # noqa: F401
from mc import codegen
from mc import monitors as M
from mc import world as W


def setup_registry(state: str) -> None:
    from concurrent.futures import ProcessPoolExecutor
    from concurrent.futures import ThreadPoolExecutor
    from multiprocessing import Manager
    from multiprocessing import get_context

    from ml_pipeline_engine.parallelism import process_pool_registry as PR
    from ml_pipeline_engine.parallelism import threads_pool_registry as TR
    if state in ('thread-only', 'both', 'thread-shutdown', 'both-thread-shutdown', 'both-process-shutdown'):
        TR.register_pool_executor(ThreadPoolExecutor(2))
    if state in ('process-only', 'both', 'process-shutdown', 'both-process-shutdown', 'both-thread-shutdown'):
        PR.register_manager(Manager())
        PR.register_pool_executor(ProcessPoolExecutor(2, mp_context=get_context('fork')))
    if state == 'process-no-manager':
        PR.register_pool_executor(ProcessPoolExecutor(2, mp_context=get_context('fork')))
    if state in ('thread-shutdown', 'both-thread-shutdown'):
        TR._pool_executor.shutdown()
    if state in ('process-shutdown', 'both-process-shutdown'):
        PR._pool_executor.shutdown()


async def run_one(chart):
    return await asyncio.wait_for(chart.run(pipeline_id='run0', input_kwargs={'x': 1}), 60)


def main() -> int:
    req = json.load(sys.stdin)
    W.MAIN_PID = os.getpid()
    W.REAL_POOLS = True
    log = tempfile.NamedTemporaryFile(prefix='mc_c17_', suffix='.log', delete=False)
    log.close()
    os.environ['MC_BODY_LOG'] = log.name
    charts = []
    for c in req['cases']:
        codegen.load(c['spec'])
        charts.append((c['id'], codegen.chart(c['spec'], {'events': False})))
    state = req['state']
    seq = state.startswith('run-then-')
    setup_registry('both' if seq else state)
    out = []
    if seq:
        # history on ONE chart/DAG object: a successful run with both pools, then the pool goes away, then the same object runs again
        from ml_pipeline_engine.parallelism import process_pool_registry as PR
        from ml_pipeline_engine.parallelism import threads_pool_registry as TR
        for cid, chart in charts:
            W.CUR = W.World([{}], {}, gate_async=False)
            try:
                asyncio.run(run_one(chart))
            except BaseException:  # noqa: BLE001
                pass
        if state == 'run-then-thread-shutdown':
            TR._pool_executor.shutdown()
        else:
            PR._pool_executor.shutdown()
    for cid, chart in charts:
        open(log.name, 'w').close()
        W.CUR = W.World([{}], {}, gate_async=False)
        try:
            res = asyncio.run(run_one(chart))
            if res.error is not None:
                oc = ['error', repr(M.token(res.error)), f'{type(res.error).__name__}: {res.error}'[:200]]
            else:
                oc = ['value', repr(M.norm(res.value))]
        except asyncio.TimeoutError:
            oc = ['hang', 'wait_for deadline (60 s) expired']
        except BaseException as e:  # noqa: BLE001
            oc = ['raised', repr(M.token(e)), f'{type(e).__name__}: {e}'[:200]]
        with open(log.name) as f:
            bodies = [l.strip() for l in f if l.strip()]
        out.append(dict(id=cid, outcome=oc, bodies=len(bodies)))
    os.unlink(log.name)
    with open(req['result_path'], 'w') as f:
        json.dump(out, f)
    # do not wait for pool teardown / manager processes
    os._exit(0)


if __name__ == '__main__':
    main()
