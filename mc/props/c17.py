"""C17: execution mode is transparent; a missing pool fails fast.

Part A (exhaustive, engine E1): every execution-mode assignment of every small program under the
fake executors, all d=0 schedules: the outcome class is one singleton across assignments and
equals the reference.
Part B (configurations, fresh subprocess each): pool-registry states x programs using each mode:
missing/shut-down pool => error result, zero body invocations, no hang.
Part C (conformance; a sample of real timing, reported separately): the same assignments on the stock
event loop with a real ThreadPoolExecutor and a fork-context ProcessPoolExecutor; outcome equals the
reference. This validates that the fake executors model the real ones.
"""
import itertools
import json
import os
import subprocess
import sys
import typing as t

from mc import codegen
from mc import corpus
from mc import enumerate as EN
from mc import env
from mc import explore as X
from mc import monitors as M
from mc import ref as R
from mc import runner as RU
from mc import spec as S

MODES = ('async', 'thread', 'process', 'inline')


def assignments(spec: dict, tier: str) -> t.Iterator[t.Dict[str, str]]:
    names = list(spec['nodes'])
    n = len(names)
    lim = 4 if tier == 'quick' else 5
    if n <= lim:
        for c in itertools.product(MODES, repeat=n):
            yield dict(zip(names, c))
    else:
        seen = set()
        for pair in itertools.combinations(MODES, 2):
            for c in itertools.product(pair, repeat=n):
                if c not in seen:
                    seen.add(c)
                    yield dict(zip(names, c))


def plans_for(spec: dict, tier: str) -> t.List[dict]:
    pl = EN.base_plans(spec)[: (2 if tier == 'quick' else 4)]
    names = list(spec['nodes'])
    pl.append(dict(pl[0], **{names[len(names) // 2]: ['raise:E1']}))
    pl.append(dict(pl[0], **{names[-1]: ['none']}))
    pl += [p for p in corpus.extra_plans(spec) if not any(v[0] == 'raise:Fatal' for v in p.values())][:3]   # retry sequences
    return pl


def work_a(arg: tuple) -> dict:
    tier, fam, spec = arg
    out = dict(cases=0, executions=0, transitions=0, states=0, viol=[], sample=None)
    for plan in plans_for(spec, tier):
        ref = R.evaluate(spec, plan)
        classes: t.Dict[tuple, tuple] = {}
        for assign in assignments(spec, tier):
            sp = json.loads(json.dumps(spec))
            for n, m in assign.items():
                sp['nodes'][n]['mode'] = m
            case = X.Case(sp, [plan], fam=fam, collab={'events': False})
            states: t.Set[int] = set()
            viols: t.Dict[str, list] = {}

            def on_exec(x) -> None:
                for sym, detail in M.m_termination(x) + M.m_outcome(x, ref) + M.m_counts(x, ref, sp):
                    viols.setdefault(sym, [0, detail, list(x.actions)])[0] += 1
                classes.setdefault(M.outcome_class(x, 0, ref), (assign, list(x.actions)))
                states.update(RU.qstates(x))

            st = X.explore(case, 0, on_exec=on_exec, limit=5000)
            out['cases'] += 1
            out['executions'] += st.executions
            out['transitions'] += st.transitions
            out['states'] += len(states)
            for sym, (cnt, detail, actions) in viols.items():
                out['viol'].append(dict(symptom=sym, detail=f'modes {assign}: {detail}', schedule=actions, case=case.describe(),
                                        key=case.key(), tags=sorted(ref.tags), source=codegen.render(sp)))
            codegen.unload(sp)
        if len(classes) > 1:
            ks = sorted(classes, key=repr)
            out['viol'].append(dict(symptom='outcome-depends-on-mode', detail=f'{[(repr(k)[:100], classes[k][0]) for k in ks]}',
                                    schedule=classes[ks[-1]][1], case=dict(spec=spec, plans=[plan]), key=S.spec_hash(spec) + '-modes',
                                    tags=sorted(ref.tags)))
        if out['sample'] is None:
            out['sample'] = dict(part='A', family=fam, spec=spec, plan=plan, outcome_classes=[repr(k)[:120] for k in classes])
    return out


# ------------------------------------------------------------------------------------------ subprocess parts

def sub(req: dict, timeout: int = 300) -> t.Any:
    """Run mc.props.c17_sub in a fresh interpreter (own session, so that pool workers and the
    multiprocessing manager it leaves behind can be killed as a group); result comes back through a file."""
    import signal
    import tempfile
    envv = dict(os.environ, PYTHONHASHSEED='0', PYTHONPATH=f'{env.VERIF}:{env.REPO}', MPE_REPO=env.REPO)
    fd, path = tempfile.mkstemp(prefix='mc_c17_res_', suffix='.json')
    os.close(fd)
    req = dict(req, result_path=path)
    efd, epath = tempfile.mkstemp(prefix='mc_c17_err_', suffix='.txt')
    # no pipes for stdout/stderr: pool workers and the manager process inherit them and would keep them open
    p = subprocess.Popen([sys.executable, '-m', 'mc.props.c17_sub'], stdin=subprocess.PIPE, stdout=subprocess.DEVNULL,
                         stderr=efd, text=True, env=envv, cwd=env.VERIF, start_new_session=True)
    os.close(efd)
    err = ''
    try:
        try:
            p.stdin.write(json.dumps(req))
            p.stdin.close()
            p.wait(timeout=timeout)
        except subprocess.TimeoutExpired:
            return 'TIMEOUT'
        finally:
            try:
                with open(epath) as f:
                    err = f.read()
                os.unlink(epath)
            except OSError:
                pass
        try:
            with open(path) as f:
                txt = f.read()
            return json.loads(txt) if txt else f'NO-RESULT rc={p.returncode} stderr={err[-600:]}'
        except Exception as e:  # noqa: BLE001
            return f'NO-RESULT rc={p.returncode} {e} stderr={err[-600:]}'
    finally:
        try:
            os.killpg(p.pid, signal.SIGKILL)
        except Exception:  # noqa: BLE001
            pass
        try:
            p.wait(timeout=5)
        except Exception:  # noqa: BLE001
            pass
        try:
            os.unlink(path)
        except OSError:
            pass


REG_STATES = ['nothing', 'thread-only', 'process-only', 'process-no-manager', 'both', 'thread-shutdown', 'process-shutdown',
              'both-thread-shutdown', 'both-process-shutdown',
              # histories on one DAG object: successful run with both pools, pool shut down, same object run again
              'run-then-thread-shutdown', 'run-then-process-shutdown']


def needs(spec: dict) -> t.Tuple[bool, bool]:
    modes = {nd['mode'] for nd in spec['nodes'].values()}
    return ('thread' in modes, 'process' in modes)


def pool_ok(state: str, need_thread: bool, need_process: bool) -> bool:
    thread_ok = state in ('thread-only', 'both', 'both-process-shutdown', 'run-then-process-shutdown')
    process_ok = state in ('process-only', 'both', 'both-thread-shutdown', 'run-then-thread-shutdown')
    return (thread_ok or not need_thread) and (process_ok or not need_process)


def b_programs() -> t.List[t.Tuple[str, dict]]:
    def P(*params):
        return {'params': [list(p) for p in params]}
    base = {'nodes': {'I': P(('x', 'plain')), 'A': P(('p', 'in', 'I')), 'B': P(('p', 'in', 'I')), 'O': P(('a', 'in', 'A'), ('b', 'in', 'B'))},
            'input': 'I', 'output': 'O'}
    out = []
    for name, modes in (('all-async', 'aaaa'), ('thread-late', 'aata'), ('thread-first', 'taaa'), ('process-late', 'aaap'),
                        ('process-mid', 'apaa'), ('thread+process', 'atpa'), ('inline-only', 'iaia'), ('inline+thread', 'iata'),
                        ('all-thread', 'tttt'), ('all-process', 'pppp')):
        sp = S.normalise(json.loads(json.dumps(base)))
        for n, m in zip(sp['nodes'], modes):
            sp['nodes'][n]['mode'] = {'a': 'async', 't': 'thread', 'p': 'process', 'i': 'inline'}[m]
        out.append((name, sp))
    return out


def work_b(state: str) -> dict:
    progs = b_programs()
    res = sub(dict(state=state, cases=[dict(id=n, spec=sp) for n, sp in progs]))
    out = dict(configs=0, viol=[], sample=None, internal=None)
    if not isinstance(res, list):
        out['internal'] = f'part B subprocess for registry state {state}: {res}'
        return out
    for (name, sp), r in zip(progs, res):
        out['configs'] += 1
        nt, npr = needs(sp)
        ok = pool_ok(state, nt, npr)
        oc = r['outcome']
        exp = R.evaluate(sp, {}).outcome
        msg = None
        if oc[0] == 'hang':
            msg = f'run did not finish within the deadline'
        elif ok:
            if oc[0] != 'value' or oc[1] != repr(exp[1]):
                msg = f'pools present but outcome {oc}; reference {exp[1]!r}'
        else:
            if oc[0] != 'error':
                msg = f'required pool missing/shut down but run returned {oc[:2]}'
            elif r['bodies'] != 0:
                msg = f'required pool missing/shut down: error result only after {r["bodies"]} node bodies had been invoked ({oc[2]})'
        if msg:
            out['viol'].append(dict(symptom='pool-registry', detail=f'registry state {state!r}, program {name}: {msg}',
                                    case=dict(spec=sp, registry=state), key=f'B-{state}-{name}', tags=[], source=codegen.render(sp)))
        if out['sample'] is None and not ok:
            out['sample'] = dict(part='B', registry=state, program=name, outcome=oc, bodies=r['bodies'])
    return out


def c_cases(tier: str) -> t.List[t.Tuple[str, dict, dict]]:
    """(id, spec with modes and fixed outcomes, plan)"""
    out = []
    specs = [sp for sp in EN.family('plain', 'quick') if len(sp['nodes']) <= (4 if tier == 'quick' else 5)]
    specs += [sp for n, sp, _ in corpus.entries() if n in ('switch_basic', 'oneof_basic', 'rec_min4', 'rhombus')]
    k = 0
    for spec in specs:
        names = list(spec['nodes'])
        plans = [EN.base_plans(spec)[0], dict(EN.base_plans(spec)[0], **{names[len(names) // 2]: ['raise:E1']})]
        if 'rec' in S.kinds_used(spec):
            plans = plans[:1]
        assigns = list(assignments(spec, 'quick')) if len(names) <= 3 else [
            dict(zip(names, c)) for c in itertools.product(('thread', 'process'), repeat=len(names))] + [
            dict(zip(names, itertools.cycle(rot))) for rot in (('async', 'thread', 'process', 'inline'), ('process', 'async', 'thread'), ('inline', 'process'))]
        for plan in plans:
            for assign in assigns:
                sp = json.loads(json.dumps(spec))
                for n in names:
                    sp['nodes'][n]['mode'] = assign[n]
                    if plan.get(n):
                        sp['nodes'][n]['fixed'] = plan[n][0]
                k += 1
                out.append((f'c{k}', sp, plan))
    return out


def work_c(batch: list) -> dict:
    out = dict(runs=0, viol=[], sample=None, internal=None)
    res = sub(dict(state='both', cases=[dict(id=i, spec=sp) for i, sp, _ in batch]), timeout=600)
    if not isinstance(res, list):
        out['internal'] = f'part C subprocess: {res}'
        return out
    for (i, sp, plan), r in zip(batch, res):
        out['runs'] += 1
        base = json.loads(json.dumps(sp))
        for nd in base['nodes'].values():
            nd.pop('fixed', None)
        exp = R.evaluate(base, plan).outcome
        oc = r['outcome']
        ok = (oc[0] == 'value' and exp[0] == 'value' and oc[1] == repr(exp[1])) or \
             (oc[0] == 'error' and exp[0] == 'fail' and oc[1] in {repr(a) for a in exp[1]})
        if not ok:
            out['viol'].append(dict(symptom='real-pool-outcome-differs',
                                    detail=f'modes {[nd["mode"] for nd in sp["nodes"].values()]} plan {plan}: real pools gave {oc}; reference {exp!r}',
                                    case=dict(spec=sp, plans=[plan]), key=f'C-{S.spec_hash(sp)}', tags=[], source=codegen.render(sp)))
        if out['sample'] is None:
            out['sample'] = dict(part='C', modes={n: nd['mode'] for n, nd in sp['nodes'].items()}, plan=plan, outcome=oc[:2])
    return out


def run(prop: str, tier: str, seed: int) -> dict:
    q = tier == 'quick'
    # ---- part A
    items = [(tier, 'plain', sp) for sp in EN.family('plain', 'quick') if len(sp['nodes']) <= (4 if q else 5)]
    items += [(tier, 'corpus', sp) for n, sp, _ in corpus.entries() if len(sp['nodes']) <= (4 if q else 5) or n in ('switch_basic', 'oneof_basic', 'retry2', 'retry_default')]
    if not q:
        for f in ('switch', 'oneof', 'rec'):
            items += [(tier, f, sp) for sp in EN.family(f, 'quick') if len(sp['nodes']) <= 4]
    tot = dict(cases=0, executions=0, transitions=0, states=0)
    viol: t.List[dict] = []
    internal: t.List[str] = []
    samples = []
    for res in RU.pmap(work_a, RU.shuffled(items, seed), chunksize=1):
        if isinstance(res, tuple) and res and res[0] == '__error__':
            internal.append(f'{res[1]}\n{res[2]}')
            continue
        for k in tot:
            tot[k] += res[k]
        viol += res['viol']
        if res['sample'] and len(samples) < 2:
            samples.append(res['sample'])
    # ---- part B
    nb = 0
    for res in RU.pmap(work_b, REG_STATES, workers=len(REG_STATES), chunksize=1):
        if isinstance(res, tuple) and res and res[0] == '__error__':
            internal.append(f'{res[1]}\n{res[2]}')
            continue
        if res['internal']:
            internal.append(res['internal'])
        nb += res['configs']
        viol += res['viol']
        if res['sample'] and sum(1 for s in samples if s.get('part') == 'B') < 1:
            samples.append(res['sample'])
    # ---- part C
    cc = c_cases(tier)
    nbatch = 8
    batches = [cc[i::nbatch] for i in range(nbatch)]
    nc = 0
    for res in RU.pmap(work_c, batches, workers=nbatch, chunksize=1):
        if isinstance(res, tuple) and res and res[0] == '__error__':
            internal.append(f'{res[1]}\n{res[2]}')
            continue
        if res['internal']:
            internal.append(res['internal'])
        nc += res['runs']
        viol += res['viol']
        if res['sample'] and sum(1 for s in samples if s.get('part') == 'C') < 1:
            samples.append(res['sample'])
    viol.sort(key=lambda v: (len(json.dumps(v['case'], default=repr)), v['key']))
    cov = dict(programs=len(items), cases=tot['cases'], executions=tot['executions'], evaluations=tot['executions'] + nb + nc,
               states=max(tot['states'], 1), transitions=max(tot['transitions'], 1),
               traces_validated_against_impl=tot['executions'], deviation_bound_completed=0, exhaustive=True,
               registry_configurations=nb, registry_states=REG_STATES,
               real_pool_conformance_runs=nc, samples=samples,
               rule='part A: program x plan x every assignment of {async, thread, process, inline} to nodes (pairs of modes above the size '
                    'limit), all d=0 schedules under fake executors: outcome class is one singleton and equals the reference; '
                    'part B: registry state x mode-using program in a fresh subprocess; part C: real ThreadPoolExecutor and fork '
                    'ProcessPoolExecutor on the stock loop, one free-running schedule each (a sample of real timing, not an enumeration)')
    return dict(coverage=cov, violations=viol, internal=internal, level='model_checking',
                assumptions=['real pool timing is sampled (part C), not enumerated: the exhaustive claim is about the engine\'s reaction to every '
                             'order of executor completions (part A), which is the only way pool timing can influence it',
                             'fake executors: unbounded workers, completion order chosen by the explorer'])
