"""C16: declarations the engine cannot execute are rejected at build time.

Bounded-exhaustive enumeration (engine E2): every valid program builds; every single-defect
mutation, with the defect placed at every applicable node of every program (so it is reached
through Input, switch node, case, candidate, recurrent destination/start, the input node and the
output node), is rejected by the real build_dag with the documented error class.
"""
import json
import typing as t

from mc import codegen
from mc import corpus
from mc import enumerate as EN
from mc import runner as RU
from mc import spec as S

NODE_DEFECTS = ['not_class', 'no_base', 'no_process', 'unannotated', 'unannotated_all', 'unannotated_kwonly', 'unannotated_varkw', 'generic_unbound']


def expected_errors(defect: str) -> t.Tuple[str, ...]:
    return {
        'not_class': ('IncorrectTypeClass',),
        'no_base': ('IncorrectBaseClass',),
        'no_process': ('RunMethodExpectedError',),
        'unannotated': ('UndefinedParamAnnotation', 'UndefinedAnnotation'),
        'unannotated_all': ('UndefinedAnnotation', 'UndefinedParamAnnotation'),
        'unannotated_kwonly': ('UndefinedParamAnnotation', 'UndefinedAnnotation'),
        'unannotated_varkw': ('UndefinedParamAnnotation', 'UndefinedAnnotation'),
        'generic_unbound': ('NonRedefinedGenericTypeError',),
        'not_recurrent': ('IncorrectRecurrentMixinClass',),
        'no_additional_data': ('IncorrectParamsRecurrentNode',),
    }[defect]


def positions(spec: dict, n: str) -> t.List[str]:
    pos = []
    if n == spec['input']:
        pos.append('input-node')
    if n == spec['output']:
        pos.append('output-node')
    for m, nd in spec['nodes'].items():
        for role, x, kw in S.refs(nd):
            if x == n:
                pos.append(role)
        for kw, kind, arg in nd['params']:
            if kind == 'rec' and arg['start'] == n:
                pos.append('recstart')
    return sorted(set(pos))


def mutations(spec: dict) -> t.Iterator[t.Tuple[str, str, dict]]:
    for n in spec['nodes']:
        for d in NODE_DEFECTS:
            if d == 'unannotated_all' and not spec['nodes'][n]['params']:
                continue
            sp = json.loads(json.dumps(spec))
            sp['nodes'][n]['defect'] = d
            yield n, d, sp
    # a defective class that reaches the DAG through build_node() (a reusable template without the node base / with an
    # un-annotated or un-rebound parameter)
    for n, nd in spec['nodes'].items():
        if n == spec['input'] or nd.get('rec') or not any(p[1] != 'plain' for p in nd['params']) \
                or any(p[0] == 'additional_data' for p in nd['params']):
            continue
        for d in ('no_base', 'unannotated', 'generic_unbound'):
            sp = json.loads(json.dumps(spec))
            sp['nodes'][n]['generic'] = True
            sp['nodes'][n]['defect'] = d
            yield f'{n} (build_node-derived)', d, sp
    # the defect on ONE reference of a shared node: a defective twin declaration with the same node id (an instance of the
    # class, or a redeclaration under the same name) referenced from one consumer while the other consumers name the valid class
    for n in spec['nodes']:
        users = [(m, i) for m, nd in spec['nodes'].items() for i, p in enumerate(nd['params']) if p[1] == 'in' and p[2] == n]
        if len(users) < 2:
            continue
        for (m, i) in users:
            for d in ('not_class', 'no_base', 'unannotated', 'generic_unbound'):
                sp = json.loads(json.dumps(spec))
                twin = f'{n}__twin'
                tw = json.loads(json.dumps(spec['nodes'][n]))
                if d == 'not_class':
                    tw = {'params': [], 'instance_of': n}
                else:
                    tw['defect'] = d
                    tw['name_override'] = n
                nodes = {}
                for k, v in sp['nodes'].items():
                    nodes[k] = v
                    if k == n:
                        nodes[twin] = tw
                nodes[m]['params'][i][2] = twin
                sp['nodes'] = nodes
                yield f'{n} (reference from {m})', d, sp
    for _, arg in S.rec_marks(spec):
        sp = json.loads(json.dumps(spec))
        sp['nodes'][arg['dest']]['defect'] = 'not_recurrent'
        yield arg['dest'], 'not_recurrent', sp
        sp = json.loads(json.dumps(spec))
        sp['nodes'][arg['start']]['defect'] = 'no_additional_data'
        yield arg['start'], 'no_additional_data', sp


def work(arg: tuple) -> dict:
    tier, fam, spec = arg
    out = dict(builds=0, viol=[], positions={}, sample=None)
    tags = sorted(S.static_tags(spec))
    try:
        codegen.build(spec)
        out['builds'] += 1
    except Exception as e:  # noqa: BLE001
        out['viol'].append(dict(symptom='valid-program-rejected', detail=f'build_dag raised {type(e).__name__}: {e}',
                                case=dict(spec=spec), key=S.spec_hash(spec), tags=tags, source=codegen.render(spec)))
    codegen.unload(spec)
    for n, d, sp in mutations(spec):
        out['builds'] += 1
        pos = positions(spec, n) if n in spec['nodes'] else (['build_node-derived'] if 'build_node' in n else ['one-reference-of-shared-node'])
        for p in pos:
            k = f'{d}@{p}'
            out['positions'][k] = out['positions'].get(k, 0) + 1
        try:
            dag = codegen.build(sp)
            got = None
        except Exception as e:  # noqa: BLE001
            got = e
            dag = None
        want = expected_errors(d)
        if got is None:
            out['viol'].append(dict(symptom='defect-accepted', detail=f'{d} at {n} ({"/".join(pos)}): build_dag returned a DAG',
                                    case=dict(spec=sp, defect=d, node=n), key=S.spec_hash(sp),
                                    tags=tags + [f'defect:{d}'] + (['via:build_node'] if 'build_node' in n else []),
                                    source=codegen.render(sp)))
        elif type(got).__name__ not in want:
            out['viol'].append(dict(symptom='wrong-build-error',
                                    detail=f'{d} at {n} ({"/".join(pos)}): raised {type(got).__name__}: {str(got)[:120]}; expected {want}',
                                    case=dict(spec=sp, defect=d, node=n), key=S.spec_hash(sp), tags=tags + [f'defect:{d}'],
                                    source=codegen.render(sp)))
        if out['sample'] is None and d == 'no_base':
            out['sample'] = dict(family=fam, defect=d, node=n, positions=pos, error=type(got).__name__ if got else None, spec=sp)
        codegen.unload(sp)
    return out


def build_node_obligations() -> t.List[dict]:
    """build_node itself: non-class and class without callable process are rejected."""
    from ml_pipeline_engine.node import ProcessorBase
    from ml_pipeline_engine.node import build_node
    viol = []
    class NoProc(ProcessorBase):
        process = None
    for name, obj, want in (('instance', ProcessorBase(), 'ClassExpectedError'), ('function', (lambda: 1), 'ClassExpectedError'),
                            ('no-process', NoProc, 'RunMethodExpectedError')):
        try:
            build_node(obj, node_name='x')
            got = 'built'
        except Exception as e:  # noqa: BLE001
            got = type(e).__name__
        if got != want:
            viol.append(dict(symptom='build-node-accepts-defect', detail=f'build_node({name}) -> {got}; expected {want}',
                             case=dict(obj=name), key=f'bn-{name}', tags=[]))
    return viol


def run(prop: str, tier: str, seed: int) -> dict:
    fams = ['plain', 'switch', 'oneof', 'rec', 'mix', 'twice', 'recx', 'switchx', 'oneofx']
    items = [(tier, 'corpus', sp) for sp in corpus.specs()]
    for f in fams:
        items += [(tier, f, sp) for sp in EN.family(f, tier)]
    builds = 0
    viol: t.List[dict] = build_node_obligations()
    pos: t.Dict[str, int] = {}
    samples = []
    for res in RU.pmap(work, RU.shuffled(items, seed), chunksize=8):
        if isinstance(res, tuple) and res and res[0] == '__error__':
            return dict(coverage={}, violations=[], internal=[f'{res[1]}\n{res[2]}'])
        builds += res['builds']
        viol += res['viol']
        for k, v in res['positions'].items():
            pos[k] = pos.get(k, 0) + v
        if res['sample'] and len(samples) < 3:
            samples.append(res['sample'])
    viol.sort(key=lambda v: (len(json.dumps(v['case'], default=repr)), v['key']))
    cov = dict(programs=len(items), states=len(items), transitions=builds + 3, evaluations=builds + 3,
               traces_validated_against_impl=builds + 3, exhaustive=True, samples=samples,
               defect_positions=dict(sorted(pos.items())),
               rule='states = valid generated programs; transitions = build_dag invocations: one per valid program and one per '
                    '(program, node, defect kind) single-defect mutation; defect_positions counts how often each defect kind was '
                    'placed at each kind of position (in / sw / case / cand / recdest / recstart / input-node / output-node)')
    return dict(coverage=cov, violations=viol, level='model_checking',
                assumptions=['seven defect kinds of the property statement; un-annotated parameter accepts either of the two annotation errors'])
