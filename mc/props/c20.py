"""C20: the viewer graph description is a faithful projection of the DAG.

Bounded-exhaustive enumeration (engine E2): for every generated program (incl. build_node generics
and node_type in {default, None}) GraphConfigImpl(dag).generate(...).as_dict() is compared with
DAG.graph / node_map; the chart snapshot must not change.
"""
import copy
import json
import sys
import types
import typing as t

from mc import codegen
from mc import corpus
from mc import enumerate as EN
from mc import runner as RU
from mc import spec as S
from mc.props.c15 import observed


def _viewer():
    # importlib_resources is not installed in this image; the description generator never touches it
    if 'importlib_resources' not in sys.modules:
        try:
            import importlib_resources  # noqa: F401
        except ImportError:
            sys.modules['importlib_resources'] = types.ModuleType('importlib_resources')
    from ml_pipeline_viewer.visualization.dag import GraphConfigImpl
    return GraphConfigImpl


PREFIX_TYPE = (('switch', 'switch'), ('input_one_of', 'input_one_of'))


def check_program(sp: dict) -> t.List[str]:
    GraphConfigImpl = _viewer()
    dag = codegen.build(sp)
    before = observed(dag)
    before_map = {k: v for k, v in dag.node_map.items()}
    try:
        cfg = GraphConfigImpl(dag).generate(name='g', verbose_name='G')
        d = cfg.as_dict()
        text = json.dumps(d, ensure_ascii=False)
        json.loads(text)
    except Exception as e:  # noqa: BLE001
        return [f'generation/serialisation raised {type(e).__name__}: {e}']
    out = []
    after = observed(dag)
    if after != before or before_map != dict(dag.node_map):
        out.append('generating the description modified the DAG')
    gnodes = list(dag.graph.nodes)
    ids = [n['id'] for n in d['nodes']]
    if sorted(ids) != sorted(gnodes):
        out.append(f'node entries {sorted(ids)} != DAG nodes {sorted(gnodes)}')
    for n in d['nodes']:
        nid = n['id']
        cls = dag.node_map.get(nid)
        if cls is None:
            want_type = next((ty for pre, ty in PREFIX_TYPE if nid.startswith(pre)), None)
            if not n['is_virtual'] or n['type'] != want_type or n.get('data') is not None:
                out.append(f'synthetic node {nid}: is_virtual={n["is_virtual"]} type={n["type"]} data={n.get("data")}')
        else:
            data = n.get('data') or {}
            import inspect
            from ml_pipeline_engine.node import get_callable_run_method
            want_doc = inspect.getdoc(get_callable_run_method(cls)) or inspect.getdoc(cls)
            if n['is_virtual'] or n['type'] != cls.node_type or data.get('name') != cls.name \
                    or data.get('verbose_name') != cls.verbose_name or data.get('doc') != want_doc:
                out.append(f'real node {nid}: {n}; class name={cls.name} type={cls.node_type}')
            if n['is_generic'] != ('generic' in cls.__name__.lower()):
                out.append(f'real node {nid}: is_generic={n["is_generic"]} for class {cls.__name__}')
    gedges = sorted(dag.graph.edges)
    eedges = sorted((e['source'], e['target']) for e in d['edges'])
    if eedges != gedges:
        out.append(f'edge entries differ: missing {sorted(set(gedges) - set(eedges))}, extra {sorted(set(eedges) - set(gedges))}, '
                   f'{len(eedges)} entries for {len(gedges)} edges')
    eids = [e['id'] for e in d['edges']]
    if len(set(eids)) != len(eids):
        out.append('edge ids are not unique')
    for e in d['edges']:
        if e['source'] not in ids or e['target'] not in ids:
            out.append(f'edge {e["id"]} has a missing endpoint')
    types_present = {n['type'] for n in d['nodes'] if n['type'] is not None}
    if not types_present <= set(d['node_types']):
        out.append(f'node_types {sorted(d["node_types"])} does not cover {sorted(types_present)}')
    for k, v in d['node_types'].items():
        if v.get('name') != k:
            out.append(f'node_types[{k}] has name {v.get("name")}')
    return out


def variants(spec: dict, tier: str) -> t.Iterator[t.Tuple[str, dict]]:
    yield 'default', spec
    gen_ok = [n for n, nd in spec['nodes'].items() if n != spec['input'] and not nd.get('rec')
              and any(p[1] != 'plain' for p in nd['params']) and not any(p[0] == 'additional_data' for p in nd['params'])]
    if gen_ok:
        sp = json.loads(json.dumps(spec))
        for n in gen_ok:
            sp['nodes'][n]['generic'] = True
        yield 'generic', sp
    if len(gen_ok) >= 2:
        # two or more nodes derived with build_node from ONE base class
        sp = json.loads(json.dumps(spec))
        for n in gen_ok:
            sp['nodes'][n]['generic'] = 'SharedBase'
        yield 'generic-shared-base', sp
    names = list(spec['nodes'])
    sp = json.loads(json.dumps(spec))
    sp['nodes'][names[len(names) // 2]]['node_type'] = None
    yield 'node_type-none', sp
    if tier != 'quick' or len(names) <= 4:
        sp = json.loads(json.dumps(spec))
        for n in names:
            sp['nodes'][n]['node_type'] = None
        yield 'all-node_type-none', sp


def work(arg: tuple) -> dict:
    tier, fam, spec = arg
    out = dict(builds=0, viol=[], sample=None)
    tags = sorted(S.static_tags(spec))
    for vname, sp in variants(spec, tier):
        out['builds'] += 1
        try:
            msgs = check_program(sp)
        except Exception as e:  # noqa: BLE001
            msgs = [f'harness: {type(e).__name__}: {e}']
        for m in msgs[:3]:
            out['viol'].append(dict(symptom='viewer-differs', detail=f'{vname}: {m}', case=dict(spec=sp), key=S.spec_hash(sp),
                                    tags=tags, source=codegen.render(sp)))
        if out['sample'] is None:
            out['sample'] = dict(family=fam, variant=vname, spec=sp)
        codegen.unload(sp)
    return out


def run(prop: str, tier: str, seed: int) -> dict:
    fams = ['plain', 'switch', 'oneof', 'rec', 'mix', 'twice', 'recx', 'switchx', 'oneofx']
    items = [(tier, 'corpus', sp) for sp in corpus.specs()]
    for f in fams:
        items += [(tier, f, sp) for sp in EN.family(f, tier)]
    builds = 0
    viol: t.List[dict] = []
    samples = []
    for res in RU.pmap(work, RU.shuffled(items, seed), chunksize=8):
        if isinstance(res, tuple) and res and res[0] == '__error__':
            return dict(coverage={}, violations=[], internal=[f'{res[1]}\n{res[2]}'])
        builds += res['builds']
        viol += res['viol']
        if res['sample'] and len(samples) < 3:
            samples.append(res['sample'])
    viol.sort(key=lambda v: (len(json.dumps(v['case'])), v['key']))
    cov = dict(programs=len(items), states=len(items), transitions=builds, evaluations=builds,
               traces_validated_against_impl=builds, exhaustive=True, samples=samples,
               rule='states = generated programs; transitions = GraphConfigImpl(...).generate().as_dict() evaluations '
                    '(default, all eligible nodes build_node-derived, node_type=None variants), each compared entry by entry '
                    'with DAG.graph / node_map and with a snapshot of the DAG taken before')
    return dict(coverage=cov, violations=viol, level='model_checking',
                assumptions=['role-disjoint buildable programs within the family bounds',
                             'node_type values inside the NodeType enum or None (the quantifier of C20)',
                             'importlib_resources (absent in this image) is stubbed; the description generator never uses it'])
