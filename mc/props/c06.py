"""C06: independent nodes of equal depth run concurrently.

Engine E1: plain-dependency DAGs x execution-mode assignments x all d=0 schedules. At every quiescent
state (all gates of the in-flight nodes withheld by the controlled loop): if every node of depth < k
has completed, every node of depth k has started. Over every schedule: two non-inline nodes with
identical dependency sets are in flight at the same time.
"""
import itertools
import json
import typing as t

from mc import codegen
from mc import corpus
from mc import enumerate as EN
from mc import explore as X
from mc import runner as RU
from mc import spec as S


def depths(spec: dict) -> t.Dict[str, int]:
    deps = S.static_deps(spec)
    d: t.Dict[str, int] = {}
    d[spec['input']] = 0
    for n in spec['nodes']:          # dependency order
        if n == spec['input']:
            continue
        # a node without marks hangs off the input node through the builder's implicit link (depth 1)
        d[n] = 1 + max((d[p] for p in (deps[n] or {spec['input']})))
    return d


def assignments(spec: dict, tier: str) -> t.Iterator[t.Dict[str, str]]:
    names = list(spec['nodes'])
    n = len(names)
    seen = set()
    if n <= (4 if tier == 'quick' else 5):
        combos: t.Iterable = itertools.product(('async', 'thread', 'process'), repeat=n)
    else:
        combos = itertools.chain.from_iterable(
            itertools.product(pair, repeat=n) for pair in (('async', 'thread'), ('async', 'process'), ('thread', 'process')))
    for c in combos:
        if c in seen:
            continue
        seen.add(c)
        yield dict(zip(names, c))
    # one inline node at every position, the rest async / thread
    for base in ('async', 'thread'):
        for i in range(n):
            c = tuple('inline' if j == i else base for j in range(n))
            if c not in seen:
                seen.add(c)
                yield dict(zip(names, c))


def monitor(x, spec: dict, dp: t.Dict[str, int]) -> t.List[tuple]:
    out = []
    if x.status != 'done' or x.outcomes[0] is None or x.outcomes[0][0] != 'value':
        return [('run-did-not-succeed', f'{x.status} {X._short(x.outcomes[0][:2]) if x.outcomes[0] else None}')]
    started: t.Set[str] = set()
    ended: t.Set[str] = set()
    start_pos: t.Dict[str, int] = {}
    end_pos: t.Dict[str, int] = {}
    maxd = max(dp.values())

    def check(where: str) -> None:
        for k in range(maxd + 1):
            level = [n for n in dp if dp[n] == k]
            if all(n in ended for n in level):
                continue
            # k is the least depth with an incomplete node and everything below is complete
            missing = [n for n in level if n not in started]
            if missing:
                out.append(('sibling-not-started',
                            f'{where}: all nodes of depth < {k} completed, in flight {sorted(started - ended)}, not started {missing}'))
            break

    for pos, e in enumerate(x.log):
        if e[0] == 'event' and e[2] == 'node_start':
            # with a (suspending) event manager registered, a node counts as started once its on_node_start hook is entered
            nm = str(e[3]).split('__', 1)[-1]
            started.add(nm)
            start_pos.setdefault(nm, pos)
        if e[0] == 'start':
            started.add(e[2])
            start_pos.setdefault(e[2], pos)
        elif e[0] == 'end':
            ended.add(e[2])
            end_pos.setdefault(e[2], pos)
        elif e[0] == 'deliver':
            check(f'quiescent before deliver {e[1]}')
    deps = S.static_deps(spec)
    names = list(spec['nodes'])
    for a, b in itertools.combinations(names, 2):
        if deps[a] == deps[b] and deps[a] and spec['nodes'][a]['mode'] != 'inline' and spec['nodes'][b]['mode'] != 'inline':
            if any(n not in start_pos or n not in end_pos for n in (a, b)):
                out.append(('siblings-serialised', f'{a} and {b} have the same dependencies; no start/end pair was observed for '
                                                   f'{[n for n in (a, b) if n not in start_pos or n not in end_pos]} although the run succeeded'))
            elif not (start_pos[a] < end_pos[b] and start_pos[b] < end_pos[a]):
                out.append(('siblings-serialised', f'{a} and {b} have the same dependencies but were not in flight together'))
    return out


def rename(spec: dict, mapping: t.Dict[str, str]) -> dict:
    def r(x):
        return mapping.get(x, x)
    nodes = {}
    for n, nd in spec['nodes'].items():
        nd2 = json.loads(json.dumps(nd))
        for p in nd2['params']:
            if p[1] == 'in':
                p[2] = r(p[2])
        nodes[r(n)] = nd2
    return {'nodes': nodes, 'input': r(spec['input']), 'output': r(spec['output'])}


def renamings(spec: dict, tier: str) -> t.Iterator[dict]:
    """Every assignment of the node names to the nodes: launch order inside the engine may depend on node ids
    (set iteration, any id-ordered traversal), so the depth-level property must hold for every naming."""
    names = list(spec['nodes'])
    if len(names) > (5 if tier == 'quick' else 6):
        return
    for perm in itertools.permutations(names):
        if list(perm) == names:
            continue
        yield rename(spec, dict(zip(names, perm)))


def work(arg: tuple) -> dict:
    tier, fam, spec = arg
    out = dict(cases=0, executions=0, transitions=0, states=0, viol=[], sample=None)
    variants = [(assign, spec) for assign in assignments(spec, tier)]
    if fam != 'corpus':
        variants += [({n: 'async' for n in sp2['nodes']}, sp2) for sp2 in renamings(spec, tier)]
        variants += [({n: 'thread' for n in sp2['nodes']}, sp2) for sp2 in renamings(spec, tier)] if len(spec['nodes']) <= 4 else []
    # node classes deriving from each other ACROSS execution modes (a thread-pool node whose parent class is an inline or a
    # coroutine node, ...): how a node is dispatched must be decided from its own class
    inh = S.with_inheritance(spec, same_mode_only=False)
    if inh is not None:
        variants += [(assign, inh) for assign in assignments(spec, tier)]
    variants = [(a, b, {'events': False}) for a, b in variants]
    # an event manager whose on_node_start hook suspends: a node held open in the hook must not delay its siblings
    hook = {'mode': 'gated', 'gate_kinds': ['node_start']}
    variants += [({n: m for n in spec['nodes']}, spec, hook) for m in ('async', 'thread')]
    # build_node-derived nodes (the generated wrapper decides how the template's process() is dispatched)
    gen = json.loads(json.dumps(spec))
    for n_, nd_ in gen['nodes'].items():
        if n_ != gen['input']:
            nd_['generic'] = True
    variants += [({n: m for n in gen['nodes']}, gen, {'events': False}) for m in ('async', 'thread', 'process')]
    for assign, base, collab in variants:
        dp = depths(base)
        sp = json.loads(json.dumps(base))
        for n, m in assign.items():
            sp['nodes'][n]['mode'] = m
        case = X.Case(sp, [{}], fam=fam, collab=dict(collab))
        viols: t.Dict[str, list] = {}
        states: t.Set[int] = set()

        def on_exec(x) -> None:
            for sym, detail in monitor(x, sp, dp):
                viols.setdefault(sym, [0, detail, list(x.actions)])[0] += 1
            states.update(RU.qstates(x))

        st = X.explore(case, 0, on_exec=on_exec, limit=5000)
        out['cases'] += 1
        out['executions'] += st.executions
        out['transitions'] += st.transitions
        out['states'] += len(states)
        if out['sample'] is None and len(sp['nodes']) >= 4:
            out['sample'] = dict(family=fam, spec=sp, depths=dp, schedules=st.executions)
        for sym, (cnt, detail, actions) in viols.items():
            out['viol'].append(dict(symptom=sym, detail=detail, schedule=actions, case=case.describe(), key=case.key(), tags=[],
                                    source=codegen.render(sp)))
        codegen.unload(sp)
    return out


def run(prop: str, tier: str, seed: int) -> dict:
    specs = [('plain', sp) for sp in EN.family('plain', tier)]
    if tier != 'quick':
        specs += [('plain7', sp) for sp in EN.family('plain7', tier)]
    specs += [('corpus', sp) for sp in corpus.specs() if not S.kinds_used(sp) and not any(nd.get('attempts') for nd in sp['nodes'].values())]
    items = [(tier, f, sp) for f, sp in specs]
    tot = dict(cases=0, executions=0, transitions=0, states=0)
    viol: t.List[dict] = []
    samples = []
    for res in RU.pmap(work, RU.shuffled(items, seed), chunksize=1):
        if isinstance(res, tuple) and res and res[0] == '__error__':
            return dict(coverage={}, violations=[], internal=[f'{res[1]}\n{res[2]}'])
        for k in tot:
            tot[k] += res[k]
        viol += res['viol']
        if res['sample'] and len(samples) < 3:
            samples.append(res['sample'])
    viol.sort(key=lambda v: (len(json.dumps(v['case'], default=repr)), v['key']))
    cov = dict(programs=len(items), cases=tot['cases'], executions=tot['executions'], evaluations=tot['executions'],
               states=max(tot['states'], 1), transitions=max(tot['transitions'], 1), traces_validated_against_impl=tot['executions'],
               deviation_bound_completed=0, exhaustive=True, samples=samples,
               rule='cases = plain-dependency DAG (isomorphism classes, fan-in <= 2) x execution-mode assignment; every d=0 schedule '
                    '(all completion orders with the gates of in-flight nodes withheld) is executed; the depth-level start condition is '
                    'evaluated at every quiescent state')
    return dict(coverage=cov, violations=viol, level='model_checking',
                assumptions=['executors have unbounded workers (every submitted job starts at once)', 'depth = longest path from the input node'])
