"""C18: the filesystem artifact store is a write-once map keyed exactly by (model, pipeline, node id).

Explicit-state BFS (engine E3): a state is the canonical content of the artifact directory plus the
reference dict; it is reached by a history of save/load operations on the real
FileSystemArtifactStore in a scratch directory; every transition is compared with the dict model.
"""
import asyncio
import itertools
import os
import pickle
import shutil
import tempfile
import typing as t

from mc import env  # noqa: F401
from mc import runner as RU


class Unpicklable:
    def __reduce__(self):
        raise TypeError('cannot pickle Unpicklable')

    def __repr__(self) -> str:
        return 'Unpicklable()'


class NotJson:
    """Picklable, not JSON-serialisable."""

    def __eq__(self, other: t.Any) -> bool:
        return isinstance(other, NotJson)

    def __hash__(self) -> int:
        return 1

    def __repr__(self) -> str:
        return 'NotJson()'


VALUES = {
    'one': 1, 'str': 's', 'dict': {'k': [1, 2]}, 'none': None, 'notjson': NotJson(), 'unpicklable': Unpicklable(),
}


class Ctx:
    def __init__(self, model: str, pid: str) -> None:
        self.model_name = model
        self.pipeline_id = pid


CTXS = {'c0': ('m', 'p0'), 'c1': ('m', 'p1'), 'c0b': ('m', 'p0'), 'c2': ('m2', 'p0')}


def alphabet(tier: str) -> t.List[tuple]:
    q = tier == 'quick'
    ids = ['a', 'a.b', 'a*', 'ab', 'a.json'] if q else ['a', 'a.b', 'a.b.c', 'a*', 'ab', '[a]', 'a.pickle', 'a.json', 'a?']
    fmts = ['PICKLE', 'JSON'] if q else ['default', 'PICKLE', 'JSON']
    vals = ['one', 'dict', 'notjson'] if q else ['one', 'str', 'dict', 'none', 'notjson', 'unpicklable']
    ctxs = ['c0', 'c1'] if q else ['c0', 'c1', 'c0b', 'c2']
    ops = [('save', c, i, f, v) for c in ctxs for i in ids for f in fmts for v in vals]
    ops += [('load', c, i) for c in ctxs for i in ids]
    return ops


def serialisable(fmt: str, vname: str) -> bool:
    if vname == 'unpicklable':
        return False
    if fmt == 'JSON' and vname == 'notjson':
        return False
    return True


def snapshot(root: str) -> tuple:
    out = []
    for d, _, files in os.walk(root):
        for f in files:
            p = os.path.join(d, f)
            with open(p, 'rb') as fh:
                out.append((os.path.relpath(p, root), fh.read()))
    return tuple(sorted(out))


def materialise(root: str, snap: tuple) -> None:
    for rel, data in snap:
        p = os.path.join(root, rel)
        os.makedirs(os.path.dirname(p), exist_ok=True)
        with open(p, 'wb') as fh:
            fh.write(data)


def apply(root: str, op: tuple) -> tuple:
    """Run one operation on the real store; return ('ok', value) or ('exc', class name)."""
    from ml_pipeline_engine.artifact_store.enums import DataFormat
    from ml_pipeline_engine.artifact_store.store.filesystem import FileSystemArtifactStore
    store = FileSystemArtifactStore(Ctx(*CTXS[op[1]]), root)
    try:
        if op[0] == 'save':
            _, c, i, f, v = op
            if f == 'default':
                res = asyncio.run(store.save(i, VALUES[v]))
            else:
                res = asyncio.run(store.save(i, VALUES[v], fmt=DataFormat[f]))
        else:
            res = asyncio.run(store.load(op[2]))
        return ('ok', res)
    except Exception as e:  # noqa: BLE001
        return ('exc', e)


def expect(model: dict, op: tuple) -> tuple:
    key = CTXS[op[1]] + (op[2],)
    if op[0] == 'save':
        _, c, i, f, v = op
        if key in model:
            return ('exc', 'ArtifactAlreadyExists'), model
        if not serialisable('PICKLE' if f == 'default' else f, v):
            return ('exc', 'any-non-artifact-error'), model
        m2 = dict(model)
        m2[key] = v
        return ('ok', None), m2
    if key in model:
        return ('ok', VALUES[model[key]]), model
    return ('exc', 'ArtifactDoesNotExist'), model


def judge(got: tuple, exp: tuple) -> t.Optional[str]:
    from ml_pipeline_engine.artifact_store.errors import ArtifactAlreadyExists
    from ml_pipeline_engine.artifact_store.errors import ArtifactDoesNotExist
    from ml_pipeline_engine.artifact_store.errors import ArtifactStoreError
    if exp[0] == 'ok':
        if got[0] != 'ok':
            return f'raised {type(got[1]).__name__}: {got[1]}; expected return {exp[1]!r}'
        if got[1] != exp[1]:
            return f'returned {got[1]!r}; expected {exp[1]!r}'
        return None
    if got[0] != 'exc':
        return f'returned {got[1]!r}; expected {exp[1]}'
    e = got[1]
    if exp[1] == 'ArtifactAlreadyExists' and not isinstance(e, ArtifactAlreadyExists):
        return f'raised {type(e).__name__}: {e}; expected ArtifactAlreadyExists'
    if exp[1] == 'ArtifactDoesNotExist' and not isinstance(e, ArtifactDoesNotExist):
        return f'raised {type(e).__name__}: {e}; expected ArtifactDoesNotExist'
    if exp[1] == 'any-non-artifact-error' and isinstance(e, ArtifactStoreError):
        return f'raised {type(e).__name__} for an unserialisable value of a free key'
    return None


def expand(arg: tuple) -> dict:
    """Expand one frontier state: apply every operation of the alphabet, judge each transition."""
    tier, snap, model_items, hist = arg
    model = dict(model_items)
    ops = alphabet(tier)
    out = dict(transitions=0, succ=[], viol=[])
    base = tempfile.mkdtemp(prefix='mc_c18_', dir=os.environ.get('TMPDIR') or None)
    try:
        for k, op in enumerate(ops):
            root = os.path.join(base, f's{k}')
            os.makedirs(root)
            materialise(root, snap)
            got = apply(root, op)
            exp, m2 = expect(model, op)
            out['transitions'] += 1
            msg = judge(got, exp)
            snap2 = snapshot(root)
            if msg is None and exp[0] == 'exc' and snap2 != snap:
                msg = f'a failed {op[0]} changed the directory: {sorted(set(x[0] for x in snap2) ^ set(x[0] for x in snap))}'
            if msg is not None:
                out['viol'].append(dict(symptom='store-disagrees-with-model', detail=f'after {list(hist)}: {op} {msg}',
                                        history=list(hist) + [op], key='h%08x' % (hash((hist, op)) & 0xffffffff), tags=[]))
            else:
                out['succ'].append((snap2, tuple(sorted(m2.items())), hist + (op,)))
            shutil.rmtree(root, ignore_errors=True)
    finally:
        shutil.rmtree(base, ignore_errors=True)
    return out


def instance_histories(tier: str) -> dict:
    """Histories on ONE store object (the BFS above makes a new store object for every operation, so it cannot see state a
    store keeps in memory): every sequence up to the depth bound over save / load of two ids, in-place mutation of the object
    last passed to save, and in-place mutation of the object last returned by load.  Model: a dict of deep copies taken at
    save time; every load must return a value equal to that snapshot, through the same object and through a fresh one."""
    import copy
    import itertools
    from ml_pipeline_engine.artifact_store.enums import DataFormat
    from ml_pipeline_engine.artifact_store.store.filesystem import FileSystemArtifactStore
    depth = 3 if tier == 'quick' else 5
    ops = ['S:a', 'S:b', 'L:a', 'L:b', 'MS', 'ML']
    out = dict(transitions=0, histories=0, viol=[])
    loop = asyncio.new_event_loop()

    class _A:          # _A.run() per operation costs a loop each; one loop serves the whole pass
        run = staticmethod(loop.run_until_complete)
    base = tempfile.mkdtemp(prefix='mc_c18i_', dir=os.environ.get('TMPDIR') or None)
    try:
        for fmt in ('PICKLE', 'JSON'):
            for L in range(2, depth + 1):
                for k, hist in enumerate(itertools.product(ops, repeat=L)):
                    if hist[0][0] != 'S' or not any(o[0] == 'L' for o in hist) or not any(o[0] == 'M' for o in hist):
                        continue
                    root = os.path.join(base, f'{fmt}{L}_{k}')
                    os.makedirs(root)
                    store = FileSystemArtifactStore(Ctx('m', 'p0'), root)
                    model: t.Dict[str, t.Any] = {}
                    last_saved = last_loaded = None
                    n = 0
                    out['histories'] += 1
                    for o in hist:
                        out['transitions'] += 1
                        msg = None
                        if o[0] == 'S':
                            i = o[2]
                            n += 1
                            v = {'k': [1, n]}
                            try:
                                _A.run(store.save(i, v, fmt=DataFormat[fmt]))
                                if i in model:
                                    msg = 'second save under an existing key succeeded'
                                model[i] = copy.deepcopy(v)
                                last_saved = v
                            except Exception as e:  # noqa: BLE001
                                if i not in model:
                                    msg = f'save raised {type(e).__name__}'
                        elif o[0] == 'L':
                            i = o[2]
                            for who, st in (('the same store object', store), ('a fresh store object', FileSystemArtifactStore(Ctx('m', 'p0'), root))):
                                try:
                                    got = _A.run(st.load(i))
                                    if i not in model:
                                        msg = f'load of a key never saved returned {got!r}'
                                    elif got != model[i]:
                                        msg = f'load through {who} returned {got!r}; saved {model[i]!r}'
                                    if st is store:
                                        last_loaded = got
                                except Exception as e:  # noqa: BLE001
                                    if i in model:
                                        msg = f'load through {who} raised {type(e).__name__}'
                        elif o == 'MS' and last_saved is not None:
                            last_saved['k'].append('mutated-after-save')
                        elif o == 'ML' and last_loaded is not None:
                            last_loaded['k'].append('mutated-after-load')
                        if msg:
                            out['viol'].append(dict(symptom='store-disagrees-with-model', detail=f'{fmt}, one store object, {list(hist)}: at {o}: {msg}',
                                                    history=list(hist), key='i%08x' % (hash((fmt, hist)) & 0xffffffff), tags=[]))
                            break
                    shutil.rmtree(root, ignore_errors=True)
                    if len(out['viol']) >= 5:
                        return out
    finally:
        shutil.rmtree(base, ignore_errors=True)
        loop.close()
    return out


def run(prop: str, tier: str, seed: int) -> dict:
    res = _run(prop, tier, seed)
    if res.get('internal'):
        return res
    ih = instance_histories(tier)
    res['violations'] = res['violations'] + ih['viol']
    res['coverage']['transitions'] += ih['transitions']
    res['coverage']['traces_validated_against_impl'] = res['coverage']['transitions']
    res['coverage']['one_store_object_histories'] = dict(histories=ih['histories'], transitions=ih['transitions'],
                                                         operations=['save a', 'save b', 'load a', 'load b', 'mutate last saved object',
                                                                     'mutate last loaded object'], depth=3 if tier == 'quick' else 5)
    return res


def _run(prop: str, tier: str, seed: int) -> dict:
    if tier == 'quick':
        return search('quick', 3, seed)
    # thorough: the small alphabet one level deeper, then the full alphabet (more ids, formats, values, contexts) to depth 2
    a = search('quick', 4, seed)
    b = search('thorough', 2, seed)
    if a.get('internal') or b.get('internal'):
        return dict(coverage={}, violations=[], internal=(a.get('internal') or []) + (b.get('internal') or []))
    cov = dict(a['coverage'])
    cov['states'] += b['coverage']['states']
    cov['transitions'] += b['coverage']['transitions']
    cov['traces_validated_against_impl'] = cov['transitions']
    cov['second_search'] = {k: b['coverage'][k] for k in ('states', 'transitions', 'operations', 'depth', 'per_depth', 'alphabet')}
    cov['samples'] = a['coverage']['samples'] + b['coverage']['samples']
    return dict(coverage=cov, violations=a['violations'] + b['violations'], level='model_checking', assumptions=a['assumptions'])


def search(tier: str, depth: int, seed: int) -> dict:
    ops = alphabet(tier)
    seen = {((), ())}
    frontier = [((), (), ())]
    transitions = 0
    viol: t.List[dict] = []
    per_depth = []
    samples = []
    for d in range(depth):
        items = [(tier, s, m, h) for s, m, h in frontier]
        nxt = []
        for res in RU.pmap(expand, RU.shuffled(items, seed), chunksize=8):
            if isinstance(res, tuple) and res and res[0] == '__error__':
                return dict(coverage={}, violations=[], internal=[f'{res[1]}\n{res[2]}'])
            transitions += res['transitions']
            viol += res['viol']
            for s2, m2, h2 in res['succ']:
                k = (s2, m2)
                if k not in seen:
                    seen.add(k)
                    nxt.append((s2, m2, h2))
        per_depth.append(dict(depth=d + 1, expanded=len(items), new_states=len(nxt)))
        if nxt and len(samples) < 3:
            samples.append(dict(history=[list(o) for o in nxt[len(nxt) // 2][2]], files=[x[0] for x in nxt[len(nxt) // 2][0]]))
        frontier = nxt
        if viol:
            break
    # dedupe violations by (operation kind, message shape): keep shortest histories
    viol.sort(key=lambda v: (len(v['history']), repr(v['history'])))
    cov = dict(states=len(seen), transitions=transitions, traces_validated_against_impl=transitions,
               operations=len(ops), depth=depth, per_depth=per_depth, exhaustive=True,
               samples=samples or [dict(history=[], files=[])],
               rule='BFS over save/load histories; state = (sorted directory tree with file bytes, reference dict); '
                    'every operation of the alphabet is applied to the real FileSystemArtifactStore in every state of '
                    'depth < bound and compared with the dict model (return value / exception class / directory unchanged on failure)',
               alphabet=dict(ids=sorted({o[2] for o in ops}), contexts=sorted({o[1] for o in ops}),
                             formats=sorted({o[3] for o in ops if o[0] == 'save'}), values=sorted({o[4] for o in ops if o[0] == 'save'})))
    return dict(coverage=cov, violations=viol[:50], level='model_checking',
                assumptions=['ids without path separators', 'one process, no concurrent writers', 'values from the listed alphabet'])
