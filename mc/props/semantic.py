"""Schedule-exploration checks for C01-C05, C09-C11, C13, C14, C19 (engines E1+E2, DESIGN 4)."""
import json
import os
import typing as t
from dataclasses import dataclass
from dataclasses import field

from mc import codegen
from mc import corpus
from mc import enumerate as EN
from mc import explore as X
from mc import runner as RU
from mc import spec as S

ALL_SYM = None
from mc import findings as _F  # noqa: E402

_FINDINGS = _F.load()


@dataclass
class Suite:
    name: str
    fams: t.List[str]
    monitors: t.List[str]
    bound: int = 0
    modes: t.List[str] = field(default_factory=lambda: ['async'])
    collab: dict = field(default_factory=dict)
    symptoms: t.Optional[t.Set[str]] = None      # None = every symptom the monitors produce
    plans: str = 'std'                           # std | pairs | ok | cancel
    limit: int = 6000
    max_nodes: int = 99
    min_nodes: int = 0
    reduce: bool = True
    require_tag: t.Optional[str] = None          # only cases whose reference evaluation carries this tag
    unnamed_switches: bool = False               # SwitchCase marks without name= (uuid-suffixed synthetic ids)
    shared_switch_names: bool = False            # identical SwitchCase marks of several consumers share one name
    inputs: t.Optional[dict] = None              # the caller's input_kwargs (default {'x': 1})
    lite: bool = False                           # drop the plans that only vary VALUES (ambig / excval / E3 / falsy payload / unhashable label)


TERM = {'deadlock', 'livelock'}
VERDICT = {'unexpected-success', 'unexpected-failure'}
VALUE = {'wrong-value', 'none-in-value', 'exception-as-value', 'recurrent-as-value', 'outcome-varies'}
ERR = {'wrong-error', 'escaped-exception', 'escaped-cancelled', 'error-not-identical'}
KW = {'exception-as-kwarg', 'recurrent-as-kwarg', 'none-as-kwarg', 'wrong-kwarg-keys', 'wrong-kwarg-value', 'started-before-input-final'}
COUNT = {'dup-exec', 'dup-exec-outside-rec', 'missing-exec'}
LAZY = {'forbidden-exec', 'candidate-started-early'}
LEFT = {'leftover-tasks', 'late-activity', 'unbounded-drain', 'cancel-hang', 'cancel-wrong-exception'}

GEN = ['plain', 'switch', 'oneof', 'rec', 'mix']
COMPOSED = ['oneofx', 'switchx', 'recx']
NEED_KIND = {'C09': 'switch', 'C10': 'oneof', 'C11': 'rec'}


SIX_NODE_FREE = {'C01', 'C02', 'C03', 'C05', 'C13', 'C14', 'C19'}
FULL_VALUE_SUITES = {'d0-async', 'd0-thread', 'twice', 'candidate-shared', 'opaque-input', 'yield-d0', 'instant', 'once-d0',
                     'early-failure-values', 'yield'}


def suites(prop: str, tier: str) -> t.List[Suite]:
    sl = _suites(prop, tier)
    if tier != 'quick':
        # thorough tier: the deeper bounds (d >= 1, pairs of failures, composed families, gated collaborators) multiply the
        # plan set; the plans that only vary VALUES stay in the d = 0 suites, where they are explored exhaustively anyway
        for su in sl:
            if su.name not in FULL_VALUE_SUITES:
                su.lite = True
            if su.name == 'd2' and prop in SIX_NODE_FREE:
                su.limit = 4000         # two deviations: capped per case and reported as capped in the evidence when hit
                su.max_nodes = min(su.max_nodes, 4)
            if su.name == 'composed' and prop not in ('C09', 'C10', 'C11'):
                # the composed families in both execution modes and with pairs of failures belong to the construct's own
                # property; the others explore them in coroutine mode with single failures
                su.modes = ['async']
                if su.plans == 'pairs':
                    su.plans = 'std'
    return sl


def _suites(prop: str, tier: str) -> t.List[Suite]:
    q = tier == 'quick'
    d_hi = 1 if q else 2
    if prop == 'C01':
        sym = VALUE | VERDICT
        return [
            Suite('d0-async', GEN + ['corpus'], ['outcome', 'varies'], 0, ['async'], symptoms=sym),
            Suite('d0-thread', GEN + ['corpus'], ['outcome', 'varies'], 0, ['thread'], symptoms=sym),
            Suite('twice', ['twice'], ['outcome', 'varies'], 0, ['async'], symptoms=sym),
            # a one-of candidate that is also a plain Input of another node (F-D20 hangs about half of these; the others work)
            Suite('candidate-shared', ['candshared'], ['outcome', 'varies'], 0, ['async'], symptoms=sym),
            Suite('shared-gated-complete', ['corpus', 'switch', 'oneof'], ['outcome', 'varies'], 0, ['async'], collab={'mode': 'gated', 'gate_kinds': ['node_complete']},
                  symptoms=sym, plans='ok', max_nodes=8 if q else 9, require_tag='node-requested-from-two-scopes', limit=30000),
            Suite('shared-gated-start', ['corpus', 'switch', 'oneof'], ['outcome', 'varies'], 0, ['async'], collab={'mode': 'gated', 'gate_kinds': ['node_start']},
                  symptoms=sym, plans='ok', max_nodes=8 if q else 9, require_tag='node-requested-from-two-scopes', limit=30000),
            Suite('composed', COMPOSED, ['outcome', 'varies'], 0, ['async'] if q else ['async', 'thread'], symptoms=sym),
        ] + [
            # the engine's hash-ordered sets of node ids (notification order of a node's consumers, node order of small
            # sub-DAG views) iterated in sorted / reverse-sorted order instead of the order PYTHONHASHSEED=0 gives
            Suite(f'set-order-{o}', ['corpus'] + ([] if q else ['oneofx']), ['outcome', 'varies'], 0, ['async'],
                  collab={'set_order': o}, symptoms=sym, min_nodes=6)
            for o in ('sorted', 'reversed')
        ] + [
            Suite('d1', ['corpus', 'rec'] if q else GEN + ['corpus'], ['outcome', 'varies'], 1, ['thread'],
                  symptoms=sym, max_nodes=4 if q else 5),
        ] + ([] if q else [Suite('d2', ['corpus', 'plain', 'rec', 'oneof', 'switch'], ['outcome', 'varies'], 2, ['thread'], symptoms=sym, max_nodes=5, limit=20000)])
    if prop == 'C02':
        return [
            Suite('d0-async', GEN + ['corpus', 'overlap'], ['term'], 0, ['async'], symptoms=TERM),
            Suite('d0-thread', GEN + ['corpus'], ['term'], 0, ['thread'], symptoms=TERM),
            Suite('composed', COMPOSED, ['term'], 0, ['async'] if q else ['async', 'thread'], symptoms=TERM, plans='std' if q else 'pairs'),
            Suite('d1', ['corpus'] + ([] if q else ['plain', 'oneof', 'switch']), ['term'], 1, ['thread'], symptoms=TERM, max_nodes=5 if q else 5),
        ] + [
            Suite(f'set-order-{o}', ['corpus'] + ([] if q else ['oneofx']), ['term'], 0, ['async'],
                  collab={'set_order': o}, symptoms=TERM, min_nodes=6)
            for o in ('sorted', 'reversed')
        ] + [
            Suite('gated-collab', ['corpus', 'plain'] + ([] if q else ['oneof']), ['term'], 0, ['async'],
                  collab={'mode': 'gated', 'store': 'rec'}, symptoms=TERM, max_nodes=4 if q else 5),
        ] + [
            Suite(f'raise-{kind}@{k}', ['corpus', 'plain'], ['term'], 0, ['async'],
                  collab={'raise_at': [kind, k], 'store': 'rec'}, symptoms=TERM, max_nodes=4 if q else 5, plans='ok+fail')
            for kind in ('pipeline_start', 'node_start', 'node_complete', 'pipeline_complete', 'save')
            for k in ((0, 1) if kind in ('node_start', 'node_complete', 'save') else (0,))
        ] + [
            Suite(f'two-managers-raise-{kind}@{k}', ['corpus', 'plain'], ['term'], 0, ['async'],
                  collab={'two_managers': True, 'mode': 'gated', 'gate_mgrs': [0], 'raise_at': [kind, k], 'raise_mgr': 1, 'store': 'rec'},
                  symptoms=TERM, max_nodes=4 if q else 5, plans='ok+fail')
            for kind in ('node_start', 'node_complete') for k in (0, 1)
        ] + ([] if q else [Suite('d2', ['corpus', 'plain', 'oneof', 'switch', 'rec'], ['term'], 2, ['thread'], symptoms=TERM, max_nodes=5, limit=20000)])
    if prop == 'C03':
        return [
            Suite('d0-async', GEN + ['corpus'], ['kwargs'], 0, ['async'], symptoms=KW),
            Suite('d0-thread', GEN + ['corpus'], ['kwargs'], 0, ['thread'], symptoms=KW),
            Suite('twice', ['twice'], ['kwargs'], 0, ['async'], symptoms=KW),
            Suite('candidate-shared', ['candshared'], ['kwargs'], 0, ['async'], symptoms=KW),
            # the caller passes an object that can be neither copied nor pickled, plus a key the input node does not declare:
            # the input node must receive exactly these
            Suite('opaque-input', ['corpus', 'plain', 'rec'], ['kwargs'], 0, ['async', 'thread'], symptoms=KW, max_nodes=4 if q else 5,
                  inputs={'x': '@opaque', 'extra': 7}),
            Suite('shared-gated-complete', ['corpus', 'switch', 'oneof'], ['kwargs'], 0, ['async'], collab={'mode': 'gated', 'gate_kinds': ['node_complete']},
                  symptoms=KW, plans='ok', max_nodes=8 if q else 9, require_tag='node-requested-from-two-scopes', limit=30000),
            Suite('shared-gated-start', ['corpus', 'switch', 'oneof'], ['kwargs'], 0, ['async'], collab={'mode': 'gated', 'gate_kinds': ['node_start']},
                  symptoms=KW, plans='ok', max_nodes=8 if q else 9, require_tag='node-requested-from-two-scopes', limit=30000),
            Suite('composed', COMPOSED, ['kwargs'], 0, ['async'] if q else ['async', 'thread'], symptoms=KW),
            # a reader outside a recurrent subgraph held in its on_node_start hook while the subgraph re-iterates: it may get the
            # first or the new value of the inner node (F-D12), never a None placeholder
            Suite('outside-reader-gated-start', ['rec', 'recx', 'corpus'], ['kwargs'], 0, ['async'], collab={'mode': 'gated', 'gate_kinds': ['node_start']},
                  symptoms=KW, plans='ok', max_nodes=5 if q else 6, require_tag='rec.outside-reader', limit=30000),
            Suite('d1', ['corpus', 'rec'] + ([] if q else ['plain', 'oneof', 'switch', 'mix']), ['kwargs'], 1, ['thread'], symptoms=KW, max_nodes=4 if q else 5),
        ] + ([] if q else [Suite('d2', ['corpus', 'rec', 'oneof', 'switch'], ['kwargs'], 2, ['thread'], symptoms=KW, max_nodes=5, limit=20000)])
    if prop == 'C04':
        sym = COUNT | {'wrong-kwarg-value', 'none-as-kwarg'}
        return [
            Suite('yield-d0', GEN + ['corpus'], ['counts', 'kwargs'], 0, ['async'], collab={'mode': 'yield'}, symptoms=sym),
            Suite('twice', ['twice'], ['counts', 'kwargs'], 0, ['async'], collab={'mode': 'yield'}, symptoms=sym),
            Suite('candidate-shared', ['candshared'], ['counts', 'kwargs'], 0, ['async'], collab={'mode': 'yield'}, symptoms=sym),
            Suite('shared-gated-complete', ['corpus', 'switch', 'oneof'], ['counts', 'kwargs'], 0, ['async'], collab={'mode': 'gated', 'gate_kinds': ['node_complete']},
                  symptoms=sym, plans='ok', max_nodes=8 if q else 9, require_tag='node-requested-from-two-scopes', limit=30000),
            Suite('shared-gated-start', ['corpus', 'switch', 'oneof'], ['counts', 'kwargs'], 0, ['async'], collab={'mode': 'gated', 'gate_kinds': ['node_start']},
                  symptoms=sym, plans='ok', max_nodes=8 if q else 9, require_tag='node-requested-from-two-scopes', limit=30000),

            Suite('yield-d1', ['corpus', 'switch', 'oneof'] + ([] if q else ['plain', 'rec', 'mix']), ['counts', 'kwargs'], 1, ['thread'],
                  collab={'mode': 'yield'}, symptoms=sym, max_nodes=5 if q else 5, plans='ok'),
        ] + ([] if q else [Suite('composed', COMPOSED, ['counts', 'kwargs'], 0, ['async'], collab={'mode': 'yield'}, symptoms=sym)]) + [
            Suite('gated', ['corpus'] + ([] if q else ['switch', 'oneof', 'plain']), ['counts', 'kwargs'], 0 if q else 1, ['async'],
                  collab={'mode': 'gated'}, symptoms=sym, plans='ok', max_nodes=6 if q else 5, limit=20000),
        ]
    if prop == 'C05':
        sym = ERR | VERDICT | TERM
        return [
            Suite('d0-async', GEN + ['corpus'], ['outcome', 'term'], 0, ['async'], symptoms=sym, plans='pairs' if q else 'std'),
        ] + ([] if q else [Suite('pairs', ['plain', 'oneof', 'switch', 'rec', 'mix', 'corpus'], ['outcome'], 0, ['async'], symptoms=sym, plans='pairs', max_nodes=5)]) + [
            Suite('d0-thread', GEN + ['corpus'], ['outcome', 'term'], 0, ['thread'], symptoms=sym, plans='std'),
            Suite('opaque-input', ['corpus', 'plain', 'rec'], ['outcome', 'term'], 0, ['async', 'thread'], symptoms=sym, max_nodes=4 if q else 5,
                  inputs={'x': '@opaque', 'extra': 7}),
            # the run's task set iterated in the opposite order: another of several failed tasks is seen first, the final
            # cancellation sweep runs the other way round
            Suite('reverse-task-order', ['plain', 'oneof', 'switch', 'rec', 'corpus'], ['outcome', 'term'], 0, ['async'], collab={'task_order': 'reverse'},
                  symptoms=sym, plans='pairs', max_nodes=5),
            Suite('composed', COMPOSED, ['outcome', 'term'], 0, ['async'] if q else ['async', 'thread'], symptoms=sym, plans='std' if q else 'pairs'),
            Suite('d1', ['corpus', 'oneof'] + ([] if q else ['plain', 'switch', 'rec', 'mix']), ['outcome'], 1, ['thread'], symptoms=sym,
                  plans='pairs', max_nodes=5 if q else 5),
        ] + ([] if q else [Suite('d2', ['corpus', 'oneof', 'plain'], ['outcome'], 2, ['thread'], symptoms=sym, plans='pairs', max_nodes=5, limit=20000)])
    if prop == 'C09':
        sym = LAZY | KW | VALUE | VERDICT | TERM | COUNT | {'wrong-error'}
        mons = ['term', 'outcome', 'kwargs', 'counts', 'varies']
        return [
            Suite('d0-async', ['switch', 'mix', 'corpus'], mons, 0, ['async'], symptoms=sym),
            Suite('composed', ['switchx'], mons, 0, ['async'] if q else ['async', 'thread'], symptoms=sym),
            Suite('d0-thread', ['switch', 'corpus'], mons, 0, ['thread'], symptoms=sym),
            # a consumer that names a case (or the switch node) of its own switch also as a direct Input
            Suite('twice', ['twice'], mons, 0, ['async'], symptoms=sym),
            Suite('unnamed', ['switch', 'corpus'] + ([] if q else ['switchx']), mons, 0, ['async'], symptoms=sym, unnamed_switches=True),
            Suite('shared-named', ['switch', 'switchx', 'corpus'], mons, 0, ['async'], symptoms=sym, shared_switch_names=True),
            Suite('d1', ['corpus', 'switch'], mons, 1, ['thread'], symptoms=sym, max_nodes=4 if q else 5),
        ]
    if prop == 'C10':
        sym = LAZY | KW | VALUE | VERDICT | TERM | COUNT | {'wrong-error', 'escaped-cancelled'}
        mons = ['term', 'outcome', 'kwargs', 'counts', 'order', 'varies']
        return [
            Suite('d0-async', ['oneof', 'mix', 'corpus'], mons, 0, ['async'], symptoms=sym, plans='pairs'),
            Suite('composed', ['oneofx'], mons, 0, ['async'] if q else ['async', 'thread'], symptoms=sym, plans='std' if q else 'pairs'),
            Suite('d0-thread', ['oneof', 'corpus'], mons, 0, ['thread'], symptoms=sym, plans='pairs'),
        ] + [
            Suite(f'set-order-{o}', ['corpus'] + ([] if q else ['oneofx']), mons, 0, ['async'], collab={'set_order': o}, symptoms=sym, min_nodes=6)
            for o in ('sorted', 'reversed')
        ] + [
            Suite('d1', ['corpus', 'oneof'], mons, 1, ['thread'], symptoms=sym, plans='std' if q else 'pairs', max_nodes=5 if q else 5),
        ] + ([] if q else [Suite('d2', ['corpus', 'oneof'], mons, 2, ['thread'], symptoms=sym, max_nodes=5, limit=20000)])
    if prop == 'C11':
        sym = LAZY | KW | VALUE | VERDICT | TERM | COUNT | {'wrong-error'}
        mons = ['term', 'outcome', 'kwargs', 'counts', 'varies']
        return [
            Suite('d0-async', ['rec', 'mix', 'corpus'], mons, 0, ['async'], symptoms=sym),
            Suite('composed', ['recx'], mons, 0, ['async'] if q else ['async', 'thread'], symptoms=sym),
            Suite('d0-thread', ['rec', 'corpus'], mons, 0, ['thread'], symptoms=sym),
            Suite('d1', ['corpus', 'rec'], mons, 1, ['thread'], symptoms=sym, max_nodes=4 if q else 5),
        ] + ([] if q else [Suite('d2', ['corpus', 'rec'], mons, 2, ['thread'], symptoms=sym, max_nodes=4, limit=20000)])
    if prop == 'C13':
        return [
            Suite('early-failure', GEN + ['corpus'], ['left'], 0, ['async'], symptoms=LEFT, lite=True),
            Suite('early-failure-values', ['corpus', 'oneof', 'switch'], ['left'], 0, ['async'], symptoms=LEFT, max_nodes=5),
            Suite('early-failure-thread', GEN + ['corpus'], ['left'], 0, ['thread'], symptoms=LEFT, lite=True),
            Suite('reverse-task-order', ['plain', 'oneof', 'switch', 'rec', 'corpus'], ['left'], 0, ['async'], collab={'task_order': 'reverse'},
                  symptoms=LEFT, max_nodes=5),
            Suite('composed', COMPOSED, ['left'], 0, ['async'] if q else ['async', 'thread'], symptoms=LEFT, lite=True),
        ] + [
            Suite(f'set-order-{o}', ['corpus'] + ([] if q else ['oneofx']), ['left'], 0, ['async'], collab={'set_order': o}, symptoms=LEFT, min_nodes=6)
            for o in ('sorted', 'reversed')
        ] + [
            Suite('cancel-every-step', ['corpus', 'plain'] + ([] if q else ['oneof', 'switch', 'rec']), ['left', 'cancel'], 0, ['async', 'thread'],
                  symptoms=LEFT, plans='cancel', max_nodes=8 if q else 8),
            # the caller cancels at every loop step of a run in which one node fails (contained or not)
            Suite('cancel-every-step-with-failure', ['corpus'] + ([] if q else ['oneof', 'plain']), ['left', 'cancel'], 0, ['async'],
                  symptoms=LEFT, plans='cancel-fail', max_nodes=7 if q else 7),
            Suite('cancel-gated-collab', ['corpus', 'plain'], ['left', 'cancel'], 0, ['async'], collab={'mode': 'gated', 'store': 'rec'},
                  symptoms=LEFT, plans='cancel1', max_nodes=4 if q else 5, limit=4000),
            Suite('d1', ['corpus'] + ([] if q else ['oneof', 'rec']), ['left'], 1, ['thread'], symptoms=LEFT, max_nodes=5),
            # two managers, the hooks of the FIRST one suspend: a node task that the end of the run (a sibling's failure, or the
            # caller's cancellation) catches inside that hook must not go on to the second manager's hook
            Suite('two-managers-gated-failure', ['corpus', 'plain'], ['left'], 0, ['async'],
                  collab={'two_managers': True, 'mode': 'gated', 'gate_mgrs': [0]}, symptoms=LEFT, max_nodes=4 if q else 5, lite=True, limit=20000),
            Suite('two-managers-gated-cancel', ['corpus', 'plain'], ['left', 'cancel'], 0, ['async'],
                  collab={'two_managers': True, 'mode': 'gated', 'gate_mgrs': [0]}, symptoms=LEFT, plans='cancel1', max_nodes=4, limit=4000),
        ] + [
            # two event managers: the first one is suspended inside its callback while the second one raises
            Suite(f'two-managers-raise-{kind}@{k}', ['corpus', 'plain'], ['left'], 0, ['async'],
                  collab={'two_managers': True, 'mode': 'gated', 'gate_mgrs': [0], 'raise_at': [kind, k], 'raise_mgr': 1, 'store': 'rec'},
                  symptoms=LEFT, max_nodes=4 if q else 5, plans='ok+fail')
            for kind in ('pipeline_start', 'node_start', 'node_complete', 'pipeline_complete')
            for k in ((0, 1) if kind in ('node_start', 'node_complete') else (0,))
        ]
    if prop == 'C14':
        return [
            Suite('instant', GEN + ['corpus'], ['events'], 0, ['async'], symptoms=None),
            Suite('shared-gated-complete', ['corpus', 'switch', 'oneof'], ['events'], 0, ['async'], collab={'mode': 'gated', 'gate_kinds': ['node_complete']},
                  symptoms=None, plans='ok', max_nodes=8 if q else 9, require_tag='node-requested-from-two-scopes', limit=30000),
            Suite('shared-gated-start', ['corpus', 'switch', 'oneof'], ['events'], 0, ['async'], collab={'mode': 'gated', 'gate_kinds': ['node_start']},
                  symptoms=None, plans='ok', max_nodes=8 if q else 9, require_tag='node-requested-from-two-scopes', limit=30000),

            Suite('yield', GEN + ['corpus'], ['events'], 0, ['thread'], collab={'mode': 'yield', 'two_managers': True}, symptoms=None),
            Suite('candidate-shared', ['candshared'], ['events'], 0, ['async'], symptoms=None),
        ] + ([] if q else [Suite('composed', COMPOSED, ['events'], 0, ['async'], symptoms=None)]) + [
            Suite('gated', ['corpus', 'plain'] + ([] if q else ['oneof', 'switch', 'rec']), ['events'], 0, ['async'],
                  collab={'mode': 'gated', 'two_managers': not q}, symptoms=None, max_nodes=4, limit=20000),
            # two managers, only on_node_complete of the first one suspends: the second manager must still see every
            # on_node_complete before a consumer of that node starts
            Suite('gated-complete-two-managers', ['corpus', 'plain'] + ([] if q else ['oneof', 'switch', 'rec']), ['events'], 0, ['async'],
                  collab={'mode': 'gated', 'two_managers': True, 'gate_kinds': ['node_complete'], 'gate_mgrs': [0]}, symptoms=None,
                  max_nodes=5, plans='ok', limit=20000),
            Suite('d1', ['corpus'] + ([] if q else ['plain', 'rec', 'oneof']), ['events'], 1, ['thread'], collab={'mode': 'yield'},
                  symptoms=None, max_nodes=5),
        ] + [
            # a manager that defines only some of the hooks, registered BEFORE a complete one: the complete manager must
            # still see the whole history, the partial one the part it defines
            Suite('partial-first-' + '+'.join(missing), ['corpus', 'plain', 'oneof', 'switch', 'rec'] if q else ['corpus', 'plain', 'oneof'], ['events'], 0, ['async'],
                  collab={'partial_first': list(missing)}, symptoms=None, max_nodes=4 if q else 5, lite=True)
            for missing in _hook_subsets(q)
        ]
    if prop == 'C19':
        sym = {'saved-recurrent', 'saved-failure', 'save-count', 'save-lost', 'save-value', 'save-unknown-node'} | VERDICT | {'wrong-error'}
        return [
            Suite('once-d0', GEN + ['corpus'], ['saves', 'outcome'], 0, ['async'], collab={'store': 'once'}, symptoms=sym),
            Suite('once-d0-thread', GEN + ['corpus'], ['saves', 'outcome'], 0, ['thread'], collab={'store': 'once'}, symptoms=sym),
            # suspending start / complete hooks on cases where a node is requested from two scopes
            Suite('shared-gated-start', ['corpus', 'switch', 'oneof'], ['saves', 'outcome'], 0, ['async'],
                  collab={'store': 'once', 'mode': 'gated', 'gate_kinds': ['node_start'], 'save_mode': 'instant'}, symptoms=sym, plans='ok',
                  max_nodes=8 if q else 9, require_tag='node-requested-from-two-scopes', limit=30000),
            Suite('shared-gated-complete', ['corpus', 'switch', 'oneof'], ['saves', 'outcome'], 0, ['async'],
                  collab={'store': 'once', 'mode': 'gated', 'gate_kinds': ['node_complete'], 'save_mode': 'instant'}, symptoms=sym, plans='ok',
                  max_nodes=8 if q else 9, require_tag='node-requested-from-two-scopes', limit=30000),
        ] + ([] if q else [Suite('composed', COMPOSED, ['saves', 'outcome'], 0, ['async'], collab={'store': 'once'}, symptoms=sym)]) + [
            Suite('once-gated-save', ['corpus', 'plain', 'switch'], ['saves', 'outcome'], 0, ['async'],
                  collab={'store': 'once', 'save_mode': 'gated'}, symptoms=sym, plans='ok', max_nodes=5 if q else 5, limit=20000),
            Suite('once-d1', ['corpus', 'switch'] + ([] if q else ['plain', 'oneof', 'rec']), ['saves', 'outcome'], 1, ['thread'],
                  collab={'store': 'once'}, symptoms=sym, plans='ok', max_nodes=5),
        ]
    raise KeyError(prop)


def _hook_subsets(q: bool) -> t.List[tuple]:
    import itertools
    hooks = ('pipeline_start', 'pipeline_complete', 'node_start', 'node_complete')
    subs = [c for r in range(1, 5) for c in itertools.combinations(hooks, r)]
    return [c for c in subs if len(c) in (1, 4)] if q else subs


def fam_specs(fam: str, tier: str) -> t.List[dict]:
    if fam == 'corpus':
        return corpus.specs()
    return EN.family(fam, tier)


def case_plans(spec: dict, suite: Suite, fam: str) -> t.List[dict]:
    if suite.plans == 'ok':
        pl = EN.base_plans(spec)
    elif suite.plans == 'cancel':
        pl = EN.base_plans(spec)[:2]
    elif suite.plans == 'cancel1':
        return EN.base_plans(spec)[:1]
    elif suite.plans == 'cancel-fail':
        b = EN.base_plans(spec)[0]
        return [dict(b, **{n: ['raise:E1']}) for n in spec['nodes'] if n not in b]
    elif suite.plans == 'ok+fail':
        pl = EN.base_plans(spec)[:1]
        names = list(spec['nodes'])
        pl = pl + [dict(pl[0], **{names[-1]: ['raise:E1']})]
    else:
        pl = EN.plans(spec, pairs=suite.plans == 'pairs')
    if suite.lite or len(spec['nodes']) > 5 and fam not in COMPOSED and fam != 'corpus':
        pl = [p for p in pl if not any(tok in ('ambig', 'excval', 'raise:E3', 'next0', 'unhashable') for v in p.values() for tok in v)]
    if fam == 'corpus':
        seen = {json.dumps(p, sort_keys=True) for p in pl}
        for p in corpus.extra_plans(spec):
            if json.dumps(p, sort_keys=True) not in seen:
                pl.append(p)
    return pl


def work(arg: tuple) -> dict:
    prop, tier, si, fam, spec = arg[:5]
    chunk = arg[5] if len(arg) > 5 else (0, 1)
    suite = suites(prop, tier)[si]
    import time as _t
    _t0 = _t.time()
    out = dict(cases=0, executions=0, transitions=0, states=0, capped=0, viol=[], internal=[], outcomes=0, sample=None, cpu=0.0, stock=0, tagged={})
    if suite.shared_switch_names:
        spec = S.share_switch_names(spec)
        if spec is None:
            return dict(cases=0, executions=0, transitions=0, states=0, capped=0, viol=[], internal=[], outcomes=0, sample=None, cpu=0.0, stock=0)
    if suite.unnamed_switches:
        spec = json.loads(json.dumps(spec))
        for nd in spec['nodes'].values():
            for prm in nd['params']:
                if prm[1] == 'switch':
                    prm[2]['name'] = None
    for mode in suite.modes:
        sp = EN.with_mode(spec, mode) if mode != 'async' else spec
        for plan in case_plans(sp, suite, fam)[chunk[0]::chunk[1]]:
            base = X.Case(sp, [plan], collab=dict(suite.collab), fam=fam, **({'inputs': [dict(suite.inputs)]} if suite.inputs else {}))
            if suite.require_tag is not None:
                from mc import ref as _R
                if suite.require_tag not in _R.evaluate(sp, plan, base.inputs[0]).tags:
                    continue
            cases = [base]
            if suite.plans in ('cancel', 'cancel1', 'cancel-fail'):
                x0 = X.execute(base)
                cases = [X.Case(sp, [plan], collab=dict(suite.collab), fam=fam, cancel=(0, k)) for k in range(x0.steps + 1)]
            for case in cases:
                r = RU.run_case(case, suite.bound, suite.monitors, limit=suite.limit, reduce=suite.reduce)
                out['cases'] += 1
                for f_ in _FINDINGS:
                    if prop in f_['properties'] and all(ft in r.tags for ft in (f_['feature'] if isinstance(f_['feature'], list) else [f_['feature']])):
                        out['tagged'][f_['id']] = out['tagged'].get(f_['id'], 0) + 1
                out['executions'] += r.executions
                out['transitions'] += r.transitions
                out['states'] += r.states
                out['outcomes'] += len(r.outcomes)
                out['capped'] += bool(r.capped)
                if r.internal:
                    out['internal'].append(f'{suite.name}/{fam}/{r.key}: {r.internal}')
                nstock = out.setdefault('_nstock', {})
                nstock[mode] = nstock.get(mode, 0) + 1
                if fam == 'corpus' and suite.bound == 0 and case.cancel is None and suite.collab.get('mode') != 'gated' \
                        and nstock[mode] <= 6 \
                        and not any(nd.get('delay') for nd in sp['nodes'].values()):
                    # conformance of the controlled loop: the first and the last d=0 schedule replayed on the stock loop
                    for policy in ('first', 'last'):
                        xv = X.execute(case, policy=policy)
                        if xv.status != 'done':
                            continue
                        try:
                            dg, _ = X.replay_on_stock_loop(case, xv.actions)
                        except X.ReplayDivergence as e:
                            out['internal'].append(f'stock-loop replay of {fam}/{r.key} diverged: {e}')
                            continue
                        if dg != X.untimed_digest(xv.log):
                            out['internal'].append(f'stock-loop replay of {fam}/{r.key} ({policy}) gives a different trace than the controlled loop')
                        out['stock'] += 1
                if out['sample'] is None:
                    out['sample'] = dict(suite=suite.name, family=fam, case=r.case, executions=r.executions,
                                         outcome_classes=r.outcomes[:3], reference=r.ref_outcome)
                for sym, (cnt, detail, actions) in r.viol.items():
                    if suite.symptoms is not None and sym not in suite.symptoms:
                        continue
                    out['viol'].append(dict(symptom=sym, detail=detail, schedule=actions, case=r.case, key=r.key,
                                            tags=r.tags, suite=suite.name, bound=suite.bound, executions_violating=cnt,
                                            source=codegen.render(sp), reference=r.ref_outcome))
    codegen.unload(spec)
    out['cpu'] = _t.time() - _t0
    return out


def run(prop: str, tier: str, seed: int) -> dict:
    sl = suites(prop, tier)
    items = []
    progs: t.Set[str] = set()
    only = os.environ.get('VERIF_SUITE')
    for si, su in enumerate(sl):
        if only and su.name != only:
            continue
        for fam in su.fams:
            for spec in fam_specs(fam, tier):
                if len(spec['nodes']) > su.max_nodes or len(spec['nodes']) < su.min_nodes:
                    continue
                if tier != 'quick' and su.name != 'd0-async' and fam not in COMPOSED and fam != 'corpus' and len(spec['nodes']) > 5:
                    continue        # the 6-node programs of the generated families are explored in the d0-async suite only
                if tier != 'quick' and prop in SIX_NODE_FREE and fam not in COMPOSED and fam != 'corpus' and len(spec['nodes']) > 5:
                    continue        # ... and only by the construct properties and C04 (cost: each thorough check stays under ~15 min)
                if NEED_KIND.get(prop) and NEED_KIND[prop] not in S.kinds_used(spec):
                    continue
                nch = 6 if fam in COMPOSED else 1
                for c in range(nch):
                    items.append((prop, tier, si, fam, spec, (c, nch)))
                progs.add(S.spec_hash(spec))
    items = RU.shuffled(items, seed)
    tot = dict(cases=0, executions=0, transitions=0, states=0, capped=0, outcomes=0, cpu=0.0, stock=0)
    per_suite: t.Dict[str, dict] = {}
    tagged: t.Dict[str, int] = {}
    viol: t.List[dict] = []
    internal: t.List[str] = []
    samples: t.List[dict] = []
    for (p, ti, si, fam, spec), res in zip_results(items, work):
        si = si if si is not None else 0
        if isinstance(res, tuple) and res and res[0] == '__error__':
            internal.append(f'worker crashed: {res[1]}\n{res[2]}')
            continue
        for k in tot:
            tot[k] += res[k]
        ps = per_suite.setdefault(sl[si].name, dict(cases=0, executions=0, bound=sl[si].bound, capped=0, cpu_s=0.0))
        ps['cpu_s'] = round(ps['cpu_s'] + res['cpu'], 1)
        ps['cases'] += res['cases']
        ps['executions'] += res['executions']
        ps['capped'] += res['capped']
        viol += res['viol']
        internal += res['internal']
        for fid, n_ in res.get('tagged', {}).items():
            tagged[fid] = tagged.get(fid, 0) + n_
        if res['sample'] and len(samples) < 4 and (not samples or samples[-1]['suite'] != res['sample']['suite']):
            samples.append(res['sample'])
    repo_tests = None
    if prop in ('C01', 'C02', 'C13') and not only:
        # the repository's own test functions under every schedule (DESIGN 2.6 'repo-tests')
        from mc import repotests
        rt = repotests.run_all(0 if tier == 'quick' else 1, limit=5000 if tier == 'quick' else 50000)
        internal += rt['internal']
        want = {'C01': {'repo-test-assertion-fails', 'repo-test-raises', 'escaped-cancelled'}, 'C02': {'deadlock', 'livelock'},
                'C13': {'leftover-tasks'}}[prop]
        viol += [v for v in rt['viol'] if v['symptom'] in want]
        repo_tests = dict(tests=rt['tests'], executions=rt['executions'], schedules_capped_tests=rt['capped'])
        tot['executions'] += rt['executions']
        tot['transitions'] += rt['transitions']
        tot['states'] += rt['states']
    viol.sort(key=lambda v: (len(json.dumps(v['case'], default=repr)), v['key'], v['symptom']))
    cov = dict(
        programs=len(progs), cases=tot['cases'], executions=tot['executions'], evaluations=tot['executions'],
        states=max(tot['states'], 1), transitions=max(tot['transitions'], 1),
        traces_validated_against_impl=tot['executions'],
        schedules_cross_validated_on_stock_loop=tot['stock'],
        distinct_outcomes=tot['outcomes'],
        deviation_bound_completed={name: ps['bound'] for name, ps in per_suite.items()},
        suites=per_suite, repo_tests=repo_tests, cases_in_open_finding_regions=tagged, caps_hit=tot['capped'] + (repo_tests or {}).get('schedules_capped_tests', 0),
        exhaustive=tot['capped'] == 0 and not (repo_tests or {}).get('schedules_capped_tests', 0),
        samples=samples or [dict(note='no case')],
        rule=('cases = (generated program, plan, configuration); every schedule with at most the stated number of '
              'deviations is executed on the real engine under the controlled loop; states = distinct '
              '(completed-work multiset, pending externals) digests at quiescent points; transitions = loop steps + deliveries; '
              'traces_validated_against_impl = executions, all of which are executions of the implementation itself; '
              'schedules_cross_validated_on_stock_loop = corpus schedules (first and last d=0 schedule per case) replayed on the stock '
              'asyncio loop with an identical trace'),
    )
    return dict(coverage=cov, violations=viol, internal=internal, level='model_checking',
                assumptions=ASSUMPTIONS)


def zip_results(items: list, fn: t.Callable) -> t.Iterator:
    """pmap keeps no order; tag each result with its item."""
    def tagged(it):
        return (it[:4] + (None,), fn(it))
    for res in RU.pmap(_Tagged(fn), items, chunksize=2):
        if isinstance(res, tuple) and len(res) == 3 and res[0] == '__error__':
            yield (None, None, 0, None, None), res
        else:
            yield res


class _Tagged:
    def __init__(self, fn: t.Callable) -> None:
        self.fn = fn

    def __call__(self, it: tuple):
        return (tuple(it[:4]) + (None,), self.fn(it))


ASSUMPTIONS = [
    'bounded: program size, plan alphabet, configurations and deviation bound as listed in coverage.suites',
    'executors are modelled as unbounded-worker pools whose completions arrive in any order (fake executor behind the public registry)',
    'the controlled loop reproduces BaseEventLoop ready-queue/timer discipline; selector fairness and signals are not modelled',
    'the reference interpreter (mc/ref.py) is trusted code',
    'PYTHONHASHSEED=0 fixes set iteration order of node-id strings inside the engine',
]
