"""C08: overlapping runs of one chart do not interfere.

Engine E1: k runs of ONE chart object on one controlled loop (run identity carried by a ContextVar
that every engine task inherits), externals of all runs in one pool, every d<=bound interleaving.
Oracle (differential, no hand-written expectation): each run's outcome class equals its solo outcome
and its projected trace is one of the traces the solo run can produce; also with one run cancelled at
every loop step, and with one run failing.
"""
import hashlib
import itertools
import json
import typing as t

from mc import codegen
from mc import corpus
from mc import enumerate as EN
from mc import explore as X
from mc import monitors as M
from mc import runner as RU
from mc import spec as S
from mc.props import c07


def projected(x, rid: int) -> str:
    """Digest of one run's part of the log with run id and virtual time removed."""
    rows = []
    for e in x.log:
        if e[0] in ('deliver', 'returned', 'cancel'):
            continue
        if e[1] != rid:
            continue
        if e[0] == 'event' and e[2] == 'pipeline_complete':
            r = e[4]
            rows.append(('event', 'pipeline_complete', X._short(getattr(r, 'value', None)), X._short(getattr(r, 'error', None))))
            continue
        body = e[2:-1] if e[0] in ('start', 'end', 'event', 'save', 'default') else e[2:]
        rows.append((e[0],) + tuple(X._short(v) for v in body))
    return hashlib.sha1(repr(rows).encode()).hexdigest()[:16]


def solo(spec: dict, entry: tuple, bound: int) -> t.Tuple[set, set]:
    name, plan, inputs, _ = entry
    classes, traces = set(), set()

    def on_exec(x) -> None:
        classes.add(M.outcome_class(x, 0))
        traces.add(projected(x, 0))

    X.explore(X.Case(spec, [plan], inputs=[inputs]), bound, on_exec=on_exec, limit=20000)
    return classes, traces


def work(arg: tuple) -> dict:
    tier, fam, spec, k = arg
    q = tier == 'quick'
    bound = 0
    alpha = c07.alphabet(spec, tier)
    alpha = alpha[:2] + [a for a in alpha[2:] if a[0].startswith(('fail', 'fallback', 'ok-x2'))][: (3 if q else 5)]
    if fam == 'corpus-deep':
        # every single failing node (a failure upstream of a one-of candidate, inside a case, ...)
        base = EN.base_plans(spec)[0]
        alpha = [('ok0', base, {'x': 1}, 'first'), ('ok-x2', base, {'x': 2}, 'first')] + \
                [(f'fail-{n}', dict(base, **{n: ['raise:E1']}), {'x': 1}, 'first') for n in spec['nodes']]
    out = dict(cases=0, executions=0, transitions=0, states=0, capped=0, viol=[], sample=None)
    tags = sorted(S.static_tags(spec))
    solos = {a[0]: solo(spec, a, bound) for a in alpha}
    combos = list(itertools.product(alpha, repeat=k)) if k == 2 else [c for c in itertools.product(alpha[:3], repeat=k)]
    for combo in combos:
        base = X.Case(spec, [c[1] for c in combo], inputs=[c[2] for c in combo], fam=fam)
        cases = [base]
        if k == 2 and (tier == 'quick' or fam == 'corpus'):
            # the same runs on two chart objects (two DAGs) built from the same node classes
            cases.append(X.Case(spec, base.plans, inputs=base.inputs, fam=fam, collab={'chart_per_run': True}))
        if k == 2 and len(spec['nodes']) <= (4 if q else 5) and combo[0][0] in (('ok0',) if q else ('ok0', 'ok1')) \
                and combo[1][0] in (('ok-x2',) if q else ('ok0', 'ok-x2')):
            # cancel run 0 at every loop step of the default schedule; run 1 must not notice
            x0 = X.execute(base)
            step = 1 if not q else 4
            cases += [X.Case(spec, base.plans, inputs=base.inputs, fam=fam, cancel=(0, s)) for s in range(0, x0.steps + 1, step)]
        for case in cases:
            viols: t.Dict[str, list] = {}
            states: t.Set[int] = set()

            def on_exec(x) -> None:
                if x.status != 'done':
                    viols.setdefault('overlap-hang', [0, f'{x.status} with {k} overlapping runs', list(x.actions)])[0] += 1
                    return
                for rid in range(k):
                    if case.cancel is not None and rid == case.cancel[0]:
                        oc = x.outcomes[rid]
                        if oc is not None and oc[0] == 'raised':
                            viols.setdefault('cancel-wrong-exception', [0, f'cancelled run saw {type(oc[1]).__name__}', list(x.actions)])[0] += 1
                        continue
                    cls = M.outcome_class(x, rid)
                    want_cls, want_tr = solos[combo[rid][0]]
                    if cls not in want_cls:
                        viols.setdefault('run-differs-from-solo', [0, f'run {rid} ({combo[rid][0]}) of {[c[0] for c in combo]}'
                                         f'{" with run 0 cancelled at step %d" % case.cancel[1] if case.cancel else ""}: {cls}; solo: {sorted(want_cls)}',
                                                                   list(x.actions)])[0] += 1
                    elif projected(x, rid) not in want_tr:
                        viols.setdefault('trace-differs-from-solo', [0, f'run {rid} ({combo[rid][0]}) of {[c[0] for c in combo]}: same outcome, '
                                         'but a trace the solo run cannot produce', list(x.actions)])[0] += 1
                for sym_, det_ in M.m_anomalies(x):
                    viols.setdefault(sym_, [0, det_, list(x.actions)])[0] += 1
                if x.leftover or x.late:
                    viols.setdefault('leftover-after-overlap', [0, f'{x.leftover} {x.late[:2]}', list(x.actions)])[0] += 1
                states.update(RU.qstates(x))

            try:
                st = X.explore(case, bound, on_exec=on_exec, limit=3000 if q else 30000)
            except X.ReplayDivergence as e:
                return dict(out, internal=str(e))
            out['cases'] += 1
            out['executions'] += st.executions
            out['transitions'] += st.transitions
            out['states'] += len(states)
            out['capped'] += bool(st.capped)
            if out['sample'] is None and k == 2 and combo[0][0] != combo[1][0]:
                out['sample'] = dict(family=fam, spec=spec, runs=[c[0] for c in combo], interleavings=st.executions)
            for sym, (cnt, detail, actions) in viols.items():
                out['viol'].append(dict(symptom=sym, detail=detail, schedule=actions, case=case.describe(), key=case.key(), tags=tags,
                                        source=codegen.render(spec)))
    codegen.unload(spec)
    return out


def run(prop: str, tier: str, seed: int) -> dict:
    q = tier == 'quick'
    items = []
    for name, sp, _ in corpus.entries():
        if len(sp['nodes']) <= (4 if q else 5) and not (q and name.startswith('rec') and name != 'rec_min4'):
            items.append((tier, 'corpus', sp, 2))
    for name, sp, _ in corpus.entries():
        if name in (('oneof_chain2', 'switch_basic') if q else ('oneof_chain2', 'oneof_chain3', 'switch_basic', 'oneof_priv_anc', 'switch_shared_anc')):
            items.append((tier, 'corpus-deep', sp, 2))
    for f in ['plain', 'switch', 'oneof', 'rec']:
        for sp in EN.family(f, tier):
            if len(sp['nodes']) <= ((3 if f == 'rec' else 4) if q else 4):
                items.append((tier, f, sp, 2))
    if not q:
        for name, sp, _ in corpus.entries():
            if len(sp['nodes']) <= 4:
                items.append((tier, 'corpus-k3', sp, 3))
    tot = dict(cases=0, executions=0, transitions=0, states=0, capped=0)
    viol: t.List[dict] = []
    internal = []
    samples = []
    for res in RU.pmap(work, RU.shuffled(items, seed), chunksize=1):
        if isinstance(res, tuple) and res and res[0] == '__error__':
            internal.append(f'{res[1]}\n{res[2]}')
            continue
        if res.get('internal'):
            internal.append(res['internal'])
        for k in tot:
            tot[k] += res[k]
        viol += res['viol']
        if res['sample'] and len(samples) < 3:
            samples.append(res['sample'])
    viol.sort(key=lambda v: (len(json.dumps(v['case'], default=repr)), v['key']))
    cov = dict(programs=len(items), cases=tot['cases'], executions=tot['executions'], evaluations=tot['executions'],
               states=max(tot['states'], 1), transitions=max(tot['transitions'], 1), traces_validated_against_impl=tot['executions'],
               deviation_bound_completed=0, caps_hit=tot['capped'], exhaustive=tot['capped'] == 0, samples=samples,
               rule='cases = program x ordered k-tuple of run kinds (success, labels, failures, other input) on ONE chart object and (k = 2) on two '
                    'chart objects built from the same node classes, plus '
                    'run 0 cancelled at loop steps of the default schedule; every d=0 interleaving of the externals of all runs is '
                    'executed; each run is compared with the set of outcomes/traces of its solo exploration')
    return dict(coverage=cov, violations=viol, internal=internal, level='model_checking',
                assumptions=['pool registries are process-wide singletons by design; the fake executor is shared as a real one would be',
                             'k = 2 (thorough: also 3 on small corpus shapes); d = 0'])
