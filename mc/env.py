"""Process-wide environment: where the engine is imported from, quiet logging, hash-seed guard."""
import logging
import os
import sys

REPO = os.environ.get('MPE_REPO', '/repo')
VERIF = os.path.dirname(os.path.dirname(os.path.abspath(__file__)))
GUARD = 'ML_PIPELINE_ENGINE_VERIF'


def setup() -> None:
    if REPO not in sys.path:
        sys.path.insert(0, REPO)
    if VERIF not in sys.path:
        sys.path.insert(0, VERIF)
    os.environ.setdefault(GUARD, '1')
    logging.disable(logging.CRITICAL)
    import warnings
    warnings.simplefilter('ignore')


def ensure_hashseed() -> None:
    """Re-exec the current python command with PYTHONHASHSEED=0 unless already fixed."""
    if os.environ.get('PYTHONHASHSEED') is None:
        env = dict(os.environ, PYTHONHASHSEED='0')
        os.execve(sys.executable, [sys.executable] + sys.argv, env)


setup()
