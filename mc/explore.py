"""Stateless, deviation-bounded schedule explorer over the real engine (DESIGN 2.3).

An execution is identified by its full list of action labels ('step', '<external label>',
'timer@<when>'). Default policy: while the ready queue is non-empty take 'step'; at quiescence
deliver the first pending external in canonical (sorted) order. Branching at quiescence is free;
delivering while the ready queue is non-empty costs one deviation (class T externals at any
position, class L externals and timers only at iteration boundaries).
"""
import asyncio
import hashlib
import typing as t
from dataclasses import dataclass
from dataclasses import field

from mc import codegen
from mc import world as W
from mc.vloop import Running

HORIZON = 6000


class ReplayDivergence(RuntimeError):
    """A recorded label was not enabled during replay: unowned nondeterminism. Never a VIOLATION."""


@dataclass
class Case:
    spec: dict
    plans: t.List[dict]
    inputs: t.List[dict] = field(default_factory=lambda: [{'x': 1}])
    collab: dict = field(default_factory=dict)
    cancel: t.Optional[t.Tuple[int, int]] = None  # (run id, global step index)
    fam: str = ''
    chart_factory: t.Optional[t.Callable] = None   # for shared charts
    coro_factory: t.Optional[t.Callable] = None    # repo-tests family: the 'run' is an arbitrary coroutine (a test function)

    def key(self) -> str:
        import json
        return hashlib.sha1(json.dumps(
            [self.spec, self.plans, self.inputs, self.collab, self.cancel], sort_keys=True, default=repr,
        ).encode()).hexdigest()[:12]

    def describe(self) -> dict:
        return dict(spec=self.spec, plans=self.plans, inputs=self.inputs, collab=self.collab,
                    cancel=self.cancel, fam=self.fam)


@dataclass
class Execution:
    status: str                      # done | deadlock | livelock
    outcomes: t.List[t.Any]          # per run: ('value', v) | ('error', e) | ('raised', e) | ('cancelled',) | None
    log: t.List[tuple]
    actions: t.List[str]
    points: t.Dict[int, tuple]       # idx -> (options, quiescent, cost_before)
    steps: int
    deviations: int
    leftover: t.List[str]            # tasks still pending after the run returned and the ready queue was drained
    late: t.List[tuple]              # body/event/save entries logged after every run had returned
    drain_steps: int
    world: t.Any
    diag: t.Any = None
    chart: t.Any = None
    input_copies: t.Any = None
    meta_copies: t.Any = None

    def digest(self) -> str:
        return hashlib.sha1(repr([(e[0],) + tuple(map(_short, e[1:])) for e in self.log]).encode()).hexdigest()[:16]


def _short(x: t.Any) -> str:
    if isinstance(x, BaseException):
        return f'{type(x).__name__}{x.args!r}'
    if isinstance(x, dict):
        return '{' + ', '.join(f'{k}: {_short(v)}' for k, v in sorted(x.items(), key=lambda kv: str(kv[0]))) + '}'
    if isinstance(x, (tuple, list)):
        return '(' + ', '.join(_short(v) for v in x) + ')'
    r = repr(x)
    if ' at 0x' in r:
        r = type(x).__name__
    return r


_installed = False


def _install() -> None:
    global _installed
    if not _installed:
        W.install_fake_executors()
        _installed = True


def outcome_of(task: asyncio.Task):
    if not task.done():
        return None
    if task.cancelled():
        return ('cancelled',)
    exc = task.exception()
    if exc is not None:
        return ('raised', exc)
    res = task.result()
    if res is None:
        return ('value', None, None)
    if getattr(res, 'error', None) is not None:
        return ('error', res.error, res)
    return ('value', res.value, res)


def execute(case: Case, prefix: t.Sequence[str] = (), bound: int = 0, reduce: bool = True,
            chart: t.Any = None, horizon: int = HORIZON, world_hook: t.Optional[t.Callable] = None,
            policy: str = 'first') -> Execution:
    _install()
    if chart is None and case.coro_factory is None:
        chart = case.chart_factory() if case.chart_factory else codegen.chart(case.spec, case.collab)
    # 'chart_per_run': every run gets its own chart and DAG object, built from the SAME node classes (C08: "charts sharing
    # node classes"); run 0 uses `chart`
    charts = [chart] + [codegen.chart(case.spec, case.collab) for _ in range(len(case.inputs) - 1)] \
        if case.collab.get('chart_per_run') and case.coro_factory is None else None
    world = W.World(case.plans, case.collab)
    W.CUR = world
    nruns = len(case.inputs)
    given_inputs = [{k: (W.OPAQUE if v == '@opaque' else v) for k, v in i.items()} if i is not None else None for i in case.inputs]
    given_meta = [{'tenant': 't' if r_ == 0 else f't{r_}', 'trace': [1, 2]} for r_ in range(len(case.inputs))]
    for r_ in range(nruns):
        world.given[r_] = dict(pid=None if case.collab.get('omit_pipeline_id') else f'run{r_}',
                               inputs=dict(given_inputs[r_] or {}), meta={'tenant': 't' if r_ == 0 else f't{r_}', 'trace': [1, 2]})
    actions: t.List[str] = []
    points: t.Dict[int, tuple] = {}
    status = None
    with Running() as loop:
        world.loop = loop
        if world_hook:
            world_hook(world, loop)
        tasks = []
        for rid in range(nruns):
            async def runner(rid=rid):
                W.RUN.set(rid)
                if case.coro_factory is not None:
                    return await case.coro_factory()
                ch = charts[rid] if charts is not None else chart
                if case.collab.get('omit_pipeline_id'):
                    return await ch.run(input_kwargs=given_inputs[rid], meta=given_meta[rid])
                return await ch.run(pipeline_id=f'run{rid}', input_kwargs=given_inputs[rid], meta=given_meta[rid])
            tasks.append(loop.create_task(runner(), name=f'mc-run{rid}'))
        steps = 0
        cost = 0
        ntodo = 0
        fresh = True
        returned: t.Set[int] = set()
        cancelled = False
        npre = len(prefix)
        while True:
            for rid, tk in enumerate(tasks):
                if rid not in returned and tk.done():
                    returned.add(rid)
                    world.log.append(('returned', rid, steps))
            if len(returned) == nruns:
                status = 'done'
                break
            if case.cancel is not None and not cancelled and steps >= case.cancel[1]:
                cancelled = True
                tasks[case.cancel[0]].cancel()
                world.log.append(('cancel', case.cancel[0], steps))
                fresh = True
            i = len(actions)
            ready = loop._ready
            quiescent = not ready
            if quiescent:
                opts = sorted(e.label for e in world.pending())
                timers = loop.due_timers()
                if timers:
                    opts.append('timer@%g' % timers[0]._when)
                if not opts:
                    status = 'deadlock'
                    break
            elif bound > 0 or i < npre:
                opts = ['step']
                pend = world.pending()
                if pend:
                    boundary = ntodo == 0
                    if fresh or not reduce or i < npre:
                        opts += sorted(e.label for e in pend if e.cls == 'T')
                    if boundary:
                        opts += sorted(e.label for e in pend if e.cls == 'L')
                if ntodo == 0:
                    timers = loop.due_timers()
                    if timers:
                        opts.append('timer@%g' % timers[0]._when)
            else:
                opts = None  # fast path: only 'step'
            if i < npre:
                label = prefix[i]
                if label != 'step' or quiescent:
                    if opts is None or label not in opts:
                        raise ReplayDivergence(f'label {label!r} not enabled at action {i}; enabled: {opts}')
            else:
                label = 'step' if not quiescent else (opts[0] if policy == 'first' else opts[-1])
            if opts is not None and len(opts) > 1:
                points[i] = (tuple(opts), quiescent, cost)
            actions.append(label)
            if label == 'step':
                if ntodo == 0:
                    ntodo = len(ready)
                before = len(ready)
                nx = len(world.ext)
                alive_before = sum(1 for e in world.ext.values() if e.alive()) if bound > 0 else 0
                loop.step()
                steps += 1
                ntodo -= 1
                if bound > 0:
                    fresh = (len(ready) > before - 1 or len(world.ext) != nx
                             or sum(1 for e in world.ext.values() if e.alive()) != alive_before)
                if steps > horizon:
                    status = 'livelock'
                    break
            else:
                if not quiescent:
                    cost += 1
                world.log.append(('deliver', label, steps))
                if label.startswith('timer@'):
                    loop.fire_timer(loop.due_timers()[0])
                else:
                    world.ext[label].deliver(loop)
                fresh = True
        # ---- terminal handling
        leftover: t.List[str] = []
        late: t.List[tuple] = []
        drain = 0
        diag = None
        if status == 'done':
            while loop._ready and drain < 1000:
                loop.step()
                drain += 1
            leftover = sorted(tk.get_name() for tk in asyncio.all_tasks(loop) if not tk.done())
            mark = len(world.log)
            for _ in range(500):
                pend = world.pending()
                timers = loop.due_timers()
                if pend:
                    pend[0].deliver(loop)
                elif timers:
                    loop.fire_timer(timers[0])
                else:
                    break
                n = 0
                while loop._ready and n < 1000:
                    loop.step()
                    n += 1
            late = [e for e in world.log[mark:] if e[0] in ('start', 'event', 'save', 'default')]
            leftover += sorted('late:' + tk.get_name() for tk in asyncio.all_tasks(loop) if not tk.done())
        elif status == 'deadlock':
            diag = sorted(tk.get_name() for tk in asyncio.all_tasks(loop) if not tk.done())
        outcomes = [outcome_of(tk) for tk in tasks]
        # cleanup: cancel whatever is left so that nothing leaks into the next execution
        for tk in asyncio.all_tasks(loop):
            tk.cancel()
        n = 0
        while loop._ready and n < 5000:
            loop.step()
            n += 1
    W.CUR = None
    return Execution(status=status, outcomes=outcomes, log=world.log, actions=actions, points=points,
                     steps=steps, deviations=cost, leftover=leftover, late=late, drain_steps=drain,
                     world=world, diag=diag, chart=chart, input_copies=given_inputs, meta_copies=given_meta)


@dataclass
class ExploreStats:
    executions: int = 0
    transitions: int = 0
    capped: bool = False
    max_dev: int = 0


def explore(case: Case, bound: int = 0, reduce: bool = True, limit: int = 200000,
            on_exec: t.Optional[t.Callable[[Execution], t.Any]] = None, **kw) -> ExploreStats:
    """Enumerate every execution of `case` with at most `bound` deviations (DFS over prefixes)."""
    st = ExploreStats()
    stack: t.List[tuple] = [()]
    while stack:
        if st.executions >= limit:
            st.capped = True
            break
        pre = stack.pop()
        x = execute(case, pre, bound, reduce, **kw)
        st.executions += 1
        st.transitions += len(x.actions)
        st.max_dev = max(st.max_dev, x.deviations)
        if on_exec is not None:
            if on_exec(x) == 'stop':
                break
        npre = len(pre)
        for i, (opts, quiescent, cost_before) in x.points.items():
            if i < npre:
                continue
            c = cost_before + (0 if quiescent else 1)
            if c > bound:
                continue
            chosen = x.actions[i]
            head = tuple(x.actions[:i])
            for alt in opts:
                if alt != chosen:
                    stack.append(head + (alt,))
    return st


# ----------------------------------------------------------------------------- stock-loop conformance (DESIGN 2.5)

def untimed_digest(log: t.Sequence[tuple]) -> str:
    """Digest of a trace without virtual timestamps and step counters (comparable across loops)."""
    rows = []
    last = max((i for i, e in enumerate(log) if e[0] == 'returned'), default=len(log) - 1)
    for e in log[: last + 1]:     # what happens after the last run returned is C13's business, not part of the schedule
        if e[0] in ('deliver', 'returned', 'cancel'):
            rows.append((e[0], e[1]))
        elif e[0] in ('start', 'end', 'event', 'save', 'default'):
            rows.append((e[0],) + tuple(_short(v) for v in e[1:-1]))
        else:
            rows.append((e[0],) + tuple(_short(v) for v in e[1:]))
    return hashlib.sha1(repr(rows).encode()).hexdigest()[:16]


def replay_on_stock_loop(case: Case, actions: t.Sequence[str]) -> t.Tuple[str, t.List[t.Any]]:
    """Realise a d=0 schedule exactly on the stock asyncio event loop: a driver task yields with sleep(0)
    and, whenever it finds the ready queue empty while it is running, the loop is quiescent and the
    driver delivers the next external of the recorded schedule. Returns (untimed digest, outcomes)."""
    _install()
    chart = case.chart_factory() if case.chart_factory else codegen.chart(case.spec, case.collab)
    world = W.World(case.plans, case.collab)
    deliveries = [a for a in actions if a != 'step']
    if any(a.startswith('timer@') for a in deliveries):
        raise ValueError('schedules with timers are not replayed on the stock loop (real clock)')
    given_inputs = [{k: (W.OPAQUE if v == '@opaque' else v) for k, v in i.items()} for i in case.inputs]

    async def main():
        loop = asyncio.get_running_loop()
        world.loop = None
        tasks = []
        for rid in range(len(case.inputs)):
            async def runner(rid=rid):
                W.RUN.set(rid)
                return await chart.run(pipeline_id=f'run{rid}', input_kwargs=given_inputs[rid])
            tasks.append(asyncio.ensure_future(runner()))
        returned = set()
        pending = list(deliveries)
        spins = 0
        while True:
            await asyncio.sleep(0)
            spins += 1
            for rid, tk in enumerate(tasks):
                if rid not in returned and tk.done():
                    returned.add(rid)
                    world.log.append(('returned', rid, 0))
            if len(returned) == len(tasks):
                break
            if len(loop._ready) == 0:
                if not pending:
                    raise ReplayDivergence('stock loop quiescent with the run pending and no delivery left in the schedule')
                label = pending.pop(0)
                if label not in world.ext or not world.ext[label].alive():
                    raise ReplayDivergence(f'stock loop: {label!r} not pending at quiescence; pending {[e.label for e in world.pending()]}')
                world.log.append(('deliver', label, 0))
                world.ext[label].deliver(loop)
            if spins > 200000:
                raise ReplayDivergence('stock loop replay did not finish')
        return [outcome_of(tk) for tk in tasks]

    W.CUR = world
    try:
        outcomes = asyncio.run(main())
    finally:
        W.CUR = None
    return untimed_digest(world.log), outcomes
