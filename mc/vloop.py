"""Controlled asyncio event loop: virtual clock, no selector, ready queue popped by hand (DESIGN 2.1)."""
import asyncio
import heapq
from asyncio import events


class VLoop(asyncio.BaseEventLoop):
    def __init__(self) -> None:
        super().__init__()
        self._vtime = 0.0
        self.exc_log = []
        # never keep the context's task / future / handle objects: the handler is also called from Task.__del__, and
        # storing the dying task there would resurrect it (and keep it in any weak registry of the code under test)
        self.set_exception_handler(lambda loop, ctx: self.exc_log.append(
            {k: (v if isinstance(v, (str, int, float, type(None))) else repr(v)[:200]) for k, v in ctx.items()}))

    # --- BaseEventLoop seams
    def time(self) -> float:
        return self._vtime

    def _write_to_self(self) -> None:
        pass

    def _process_events(self, event_list) -> None:
        pass

    # --- manual driving
    def n_ready(self) -> int:
        return len(self._ready)

    def step(self) -> None:
        h = self._ready.popleft()
        if not h._cancelled:
            h._run()
        # as in BaseEventLoop._run_once: "needed to break cycles when an exception occurs".  A finished coroutine frame kept
        # by an exception's traceback keeps its whole f_back chain, i.e. this frame and its locals; with `h` still bound the
        # handle, its task_wakeup and so the task itself would stay alive in a cycle task -> exception -> traceback -> frame
        # -> handle -> task, which the stock loop does not have (it matters to code that tracks tasks weakly).
        h = None

    def due_timers(self):
        return sorted((h for h in self._scheduled if not h._cancelled), key=lambda h: h._when)

    def fire_timer(self, h) -> None:
        self._scheduled.remove(h)
        heapq.heapify(self._scheduled)
        h._scheduled = False
        self._vtime = max(self._vtime, h._when)
        self._ready.append(h)


class Running:
    """Context manager: a fresh VLoop installed as *the running loop* without run_forever()."""

    def __enter__(self) -> VLoop:
        self.loop = VLoop()
        events._set_running_loop(self.loop)
        return self.loop

    def __exit__(self, *exc) -> None:
        events._set_running_loop(None)
        try:
            self.loop._ready.clear()
            self.loop._scheduled.clear()
            self.loop.close()
        except Exception:
            pass
