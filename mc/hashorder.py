"""Seam for the engine's hash-ordered sets (DESIGN 2.4 'set-order').

Two places in the run path iterate a set of node ids, so their order depends on the interpreter's string hash seed:

* `nx.descendants_at_distance(graph, node, 1)` in the manager's `__get_descendants`: the order in which the consumers of a
  finished node are notified;
* `Graph.subgraph(set_of_nodes)` in `get_connected_subgraph`: networkx iterates the *filter's node set* when the sub-DAG
  has fewer than half of the nodes, and `nx.topological_sort` breaks ties in node iteration order, so the launch order of
  independent nodes of a one-of / recurrent / switch sub-DAG depends on it.

The checks pin PYTHONHASHSEED=0, which fixes one order.  With ORDER set, both sets iterate in sorted or reverse-sorted
order of the node ids instead (any order is a legal iteration order of a set), which gives the explorer two more
points of that space per case.  ORDER = None leaves the native order untouched.
"""
import typing as t

ORDER: t.Optional[str] = None          # None | 'sorted' | 'reversed'
_installed = False


class OrdSet(set):
    def __iter__(self):
        if ORDER is None:
            return set.__iter__(self)
        return iter(sorted(set.__iter__(self), key=repr, reverse=ORDER == 'reversed'))


class _NxProxy:
    """Stands for the `nx` global of ml_pipeline_engine.dag.manager only."""

    def __init__(self, nx) -> None:
        self.__dict__['_nx'] = nx

    def __getattr__(self, name):
        return getattr(self._nx, name)

    def descendants_at_distance(self, G, source, distance):
        return OrdSet(self._nx.descendants_at_distance(G, source, distance))


def install() -> None:
    global _installed
    if _installed:
        return
    import networkx as nx
    from networkx.classes import filters
    from ml_pipeline_engine.dag import manager

    base = filters.show_nodes

    class show_nodes(base):  # noqa: N801
        def __init__(self, nodes) -> None:
            self.nodes = OrdSet(nodes)

    filters.show_nodes = show_nodes
    if getattr(nx, 'filters', None) is not filters:
        nx.filters.show_nodes = show_nodes
    if hasattr(manager, 'nx'):
        manager.nx = _NxProxy(manager.nx)
    _installed = True


def set_order(order: t.Optional[str]) -> None:
    global ORDER
    if order is not None:
        install()
    ORDER = order
