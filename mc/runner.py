"""Case runner: explore one case, apply monitors, summarise; parallel driver over many cases."""
import multiprocessing as mp
import os
import random
import time
import typing as t
from dataclasses import dataclass
from dataclasses import field

from mc import explore as X
from mc import monitors as M
from mc import ref as R


@dataclass
class CaseResult:
    case: dict
    key: str
    tags: t.List[str]
    executions: int = 0
    transitions: int = 0
    states: int = 0
    capped: bool = False
    outcomes: t.List[str] = field(default_factory=list)
    # symptom -> [count, detail, actions]
    viol: t.Dict[str, list] = field(default_factory=dict)
    internal: t.Optional[str] = None
    ref_outcome: str = ''


def apply_monitors(x, ref, case: X.Case, monitors: t.Sequence[str], rid: int = 0) -> t.List[M.V]:
    out: t.List[M.V] = []
    spec = case.spec
    inputs = case.inputs[rid]
    for m in monitors:
        if m == 'term':
            out += M.m_termination(x, ref, rid)
        elif m == 'outcome':
            out += M.m_outcome(x, ref, rid)
        elif m == 'kwargs':
            out += M.m_kwargs(x, ref, spec, rid, inputs)
        elif m == 'counts':
            out += M.m_counts(x, ref, spec, rid)
        elif m == 'order':
            out += M.m_oneof_order(x, ref, spec, rid)
        elif m == 'left':
            out += M.m_leftovers(x, rid)
        elif m == 'cancel':
            out += M.m_cancel(x, rid)
        elif m == 'events':
            out += M.m_events(x, ref, spec, rid, 2 if case.collab.get('two_managers') or case.collab.get('partial_first') else 1,
                              partial_first=case.collab.get('partial_first') or ())
        elif m == 'saves':
            out += M.m_saves(x, ref, spec, rid)
        elif m == 'varies':
            pass
        else:
            raise KeyError(m)
    return out


def run_case(case: X.Case, bound: int, monitors: t.Sequence[str], limit: int = 20000, reduce: bool = True) -> CaseResult:
    ref = R.evaluate(case.spec, case.plans[0], case.inputs[0])
    res = CaseResult(case=case.describe(), key=case.key(), tags=sorted(ref.tags), ref_outcome=repr(ref.outcome)[:200])
    classes: t.Dict[tuple, list] = {}
    states: t.Set[int] = set()

    def on_exec(x) -> t.Optional[str]:
        for sym, detail in apply_monitors(x, ref, case, monitors):
            v = res.viol.get(sym)
            if v is None:
                res.viol[sym] = [1, detail, list(x.actions)]
            else:
                v[0] += 1
        oc = M.outcome_class(x, 0, ref)
        if oc not in classes:
            classes[oc] = list(x.actions)
        states.update(qstates(x))
        if x.status == 'livelock':
            # a run that exceeds the step horizon has thousands of choice points: one such execution is the counterexample
            # (C02 reports it); enumerating its deviations would take hours and add nothing
            res.viol.setdefault('livelock', [1, f'run still busy after {x.steps} loop steps', list(x.actions)[:200]])
            return 'stop'
        return None

    try:
        st = X.explore(case, bound, reduce=reduce, limit=limit, on_exec=on_exec)
    except X.ReplayDivergence as e:
        res.internal = f'ReplayDivergence: {e}'
        return res
    res.executions, res.transitions, res.capped = st.executions, st.transitions, st.capped
    res.states = len(states)
    res.outcomes = sorted(map(repr, classes))
    if 'varies' in monitors and len(classes) > 1:
        ks = sorted(classes, key=repr)
        res.viol['outcome-varies'] = [len(classes), f'outcome depends on the schedule: {[repr(k)[:120] for k in ks]}',
                                      classes[ks[-1]]]
    return res


def qstates(x) -> t.List[int]:
    """Distinct quiescent-state digests: (multiset of everything logged so far, pending externals)."""
    out = []
    h = 0
    for e in x.log:
        if e[0] == 'deliver':
            out.append(hash((h, e[1])))
        else:
            h ^= hash((e[0], e[1], str(e[2]), str(e[3]) if len(e) > 3 else ''))
    out.append(hash((h, x.status)))
    return out


# ------------------------------------------------------------------------------------ parallel driver

_WORK_FN = None


def _worker(item):
    fn, arg = item
    try:
        return fn(arg)
    except Exception as e:  # noqa: BLE001
        import traceback
        return ('__error__', repr(e), traceback.format_exc())


def pmap(fn: t.Callable, items: t.Sequence, workers: t.Optional[int] = None, chunksize: int = 4) -> t.Iterator:
    workers = workers or int(os.environ.get('VERIF_WORKERS', '0')) or min(16, os.cpu_count() or 4)
    items = list(items)
    if workers <= 1 or len(items) <= 1:
        for it in items:
            yield _worker((fn, it))
        return
    ctx = mp.get_context('fork')
    with ctx.Pool(workers) as pool:
        yield from pool.imap_unordered(_worker, [(fn, it) for it in items], chunksize=chunksize)


def shuffled(items: t.Sequence, seed: int) -> list:
    items = list(items)
    random.Random(seed).shuffle(items)
    return items
