"""Spec language helpers (DESIGN 2.6).

spec = {'nodes': {name: {'params': [[kw, kind, arg], ...], 'mode': 'async|thread|inline|process',
                         'attempts': int|None, 'delay': num|None, 'exceptions': ['E1', ...]|None,
                         'use_default': bool, 'rec': bool, 'node_type': str|None, 'generic': bool}},
        'input': name, 'output': name}
kinds: 'plain' (arg None), 'in' (arg node), 'oneof' (arg [nodes]),
       'switch' (arg {'switch': n, 'cases': [[label, n], ...], 'name': str|None}),
       'rec' (arg {'start': n, 'dest': n, 'max': int}).
Nodes are listed in dependency order (a node only references earlier ones).
"""
import hashlib
import json
import typing as t


def canon(spec: dict) -> str:
    return json.dumps(spec, sort_keys=True, default=list)


def spec_hash(spec: dict) -> str:
    return hashlib.sha1(canon(spec).encode()).hexdigest()[:12]


def refs(nd: dict) -> t.List[t.Tuple[str, str, str]]:
    """(role, node, kwarg) for every node reference of a declaration."""
    out = []
    for kw, kind, arg in nd['params']:
        if kind == 'in':
            out.append(('in', arg, kw))
        elif kind == 'oneof':
            out += [('cand', a, kw) for a in arg]
        elif kind == 'switch':
            out.append(('sw', arg['switch'], kw))
            out += [('case', c, kw) for _, c in arg['cases']]
        elif kind == 'rec':
            out.append(('recdest', arg['dest'], kw))
    return out


def static_deps(spec: dict) -> t.Dict[str, t.Set[str]]:
    return {n: {r[1] for r in refs(nd)} for n, nd in spec['nodes'].items()}


def ancestors(deps: t.Dict[str, t.Set[str]], n: str) -> t.Set[str]:
    out: t.Set[str] = set()
    st = [n]
    while st:
        x = st.pop()
        for p in deps[x]:
            if p not in out:
                out.add(p)
                st.append(p)
    return out


def rec_marks(spec: dict) -> t.List[t.Tuple[str, dict]]:
    return [(n, arg) for n, nd in spec['nodes'].items() for kw, kind, arg in nd['params'] if kind == 'rec']


def rec_region(spec: dict, deps: dict, start: str, dest: str) -> t.Set[str]:
    anc = {n: ancestors(deps, n) for n in spec['nodes']}
    return {x for x in spec['nodes'] if (x == start or start in anc[x]) and (x == dest or x in anc[dest])}


def normalise(spec: dict) -> dict:
    """Fill defaults; make recurrent destinations RecurrentProcessors; give recurrent start nodes an
    additional_data parameter."""
    spec = json.loads(json.dumps(spec))
    for n, nd in spec['nodes'].items():
        nd.setdefault('params', [])
        nd['params'] = [list(p) + [None] * (3 - len(p)) for p in nd['params']]
        nd.setdefault('mode', 'async')
    for _, arg in rec_marks(spec):
        spec['nodes'][arg['dest']]['rec'] = True
        st = spec['nodes'][arg['start']]
        if not any(p[0] == 'additional_data' for p in st['params']):
            st['params'].append(['additional_data', 'plain', None])
    return spec


def well_formed(spec: dict) -> bool:
    names = list(spec['nodes'])
    seen: t.Set[str] = set()
    for n in names:
        nd = spec['nodes'][n]
        for role, m, kw in refs(nd):
            if m not in seen:
                return False
        kws = [p[0] for p in nd['params']]
        if len(kws) != len(set(kws)):
            return False
        for kw, kind, arg in nd['params']:
            if kind == 'switch':
                labels = [l for l, _ in arg['cases']]
                if len(labels) != len(set(labels)):
                    return False
            if kind == 'oneof' and len(arg) != len(set(arg)):
                return False
        seen.add(n)
    deps = static_deps(spec)
    if ancestors(deps, spec['output']) | {spec['output']} != set(names):
        return False
    for _, arg in rec_marks(spec):
        if arg['start'] != arg['dest'] and arg['start'] not in ancestors(deps, arg['dest']):
            return False
    return True


def static_tags(spec: dict) -> t.Set[str]:
    """Syntactic role-overlap tags (DESIGN 2.6 'role-disjoint')."""
    tags: t.Set[str] = set()
    roles: t.Dict[str, list] = {}
    for n, nd in spec['nodes'].items():
        rs = refs(nd)
        # two references collapse into ONE graph edge only when both are direct edges into the consumer itself (Input /
        # recurrent destination), or when they repeat inside one mark (two labels of a switch naming the same case).
        # A case / candidate / switch node that the consumer ALSO names directly goes through a synthetic node: two
        # distinct edges, a legitimate program.
        direct = [r[1] for r in rs if r[0] in ('in', 'recdest')]
        per_kw: t.Dict[str, list] = {}
        for role, m, kw in rs:
            per_kw.setdefault(kw, []).append(m)
        if len(direct) != len(set(direct)) or any(len(v) != len(set(v)) for v in per_kw.values()):
            tags.add('build.duplicate-dependency')
        for role, m, kw in rs:
            roles.setdefault(m, []).append((role, n))
    for m, rs in roles.items():
        kinds = [r for r, _ in rs]
        if 'cand' in kinds and len(rs) > 1:
            tags.add('oneof.candidate-shared')
        if 'case' in kinds and 'sw' in kinds:
            tags.add('switch.case-is-switch-node')
    return tags


def same_consumer_twice(spec: dict) -> bool:
    """Some consumer names one node in two of its references (e.g. as a switch case and as a direct Input)."""
    for nd in spec['nodes'].values():
        names = [r[1] for r in refs(nd)]
        if len(names) != len(set(names)):
            return True
    return False


def kinds_used(spec: dict) -> t.Set[str]:
    return {p[1] for nd in spec['nodes'].values() for p in nd['params'] if p[1] not in ('in', 'plain')}


def share_switch_names(spec: dict) -> t.Optional[dict]:
    """The same named SwitchCase mark used by several consumers: switch parameters with identical switch node and cases
    get one name (one synthetic node with an edge to every consumer). None if no two parameters are identical."""
    sp = json.loads(json.dumps(spec))
    groups: t.Dict[str, list] = {}
    for n, nd in sp['nodes'].items():
        for p in nd['params']:
            if p[1] == 'switch':
                groups.setdefault(json.dumps([p[2]['switch'], p[2]['cases']]), []).append(p)
    shared = False
    for k, ps in groups.items():
        if len(ps) > 1:
            shared = True
            for p in ps:
                p[2]['name'] = ps[0][2]['name']
    return sp if shared else None


def with_inheritance(spec: dict, same_mode_only: bool = True) -> t.Optional[dict]:
    """Variant in which every non-input node class derives from the previous plain node class of the listing (node
    classes of one pipeline forming an inheritance chain). None if fewer than two eligible nodes."""
    sp = json.loads(json.dumps(spec))
    names = [n for n, nd in sp['nodes'].items() if not nd.get('generic') and not nd.get('defect')]
    if len(names) < 3:
        return None
    prev = None
    for n in names:
        nd = sp['nodes'][n]
        if prev is not None and (not same_mode_only or sp['nodes'][prev].get('mode', 'async') == nd.get('mode', 'async')):
            nd['extends'] = prev
        prev = n
    return sp
