"""`repo-tests` family (DESIGN 2.6): the repository's OWN test functions from tests/dag/** are run as they are
under the schedule explorer. Their synchronous node bodies become class-T externals through the fake thread
executor; the oracle is the test's own assertions, now required under every schedule <= d instead of the one
schedule the stock loop happens to produce, plus the structural monitors (termination, leftovers).

Tests that need fixtures other than `build_chart` (mocker, caplog) are skipped: their assertions are about
mocks or log text, not about the engine's observable behaviour.
"""
import importlib
import inspect
import pkgutil
import sys
import typing as t

from mc import env
from mc import explore as X
from mc import runner as RU


def _build_chart(*args: t.Any, **kwargs: t.Any):
    from ml_pipeline_engine.chart import PipelineChart
    from ml_pipeline_engine.dag_builders.annotation import build_dag
    from mc import codegen
    dag = build_dag(*args, **kwargs)
    try:
        dag.run_manager = codegen.manager_factory
    except Exception:  # noqa: BLE001
        pass
    return PipelineChart('no op', dag)


# Tests whose d=0 schedule space exceeds 20 000 executions (a switch inside a recurrent subgraph with ~100 re-iterations of
# synchronous nodes); they are not part of the family, so that every included test is explored exhaustively.
TOO_LARGE = ('tests.dag.recurrent_subgraph.test_subgraph_with_inside_switch',)


def collect() -> t.List[t.Tuple[str, str, str, dict]]:
    """(test id, module name, function name, parametrized kwargs)"""
    if env.REPO not in sys.path:
        sys.path.insert(0, env.REPO)
    out = []
    try:
        import tests.dag as pkg
    except Exception:  # noqa: BLE001
        return out
    for mi in pkgutil.walk_packages(pkg.__path__, 'tests.dag.'):
        if not mi.name.rsplit('.', 1)[-1].startswith('test_') or mi.name in TOO_LARGE:
            continue
        try:
            mod = importlib.import_module(mi.name)
        except Exception:  # noqa: BLE001
            continue
        for name, fn in sorted(vars(mod).items()):
            if not name.startswith('test') or not inspect.iscoroutinefunction(fn):
                continue
            params = [({}, '')]
            names: t.List[str] = []
            for mark in getattr(fn, 'pytestmark', []):
                if mark.name == 'parametrize':
                    argnames, argvalues = mark.args[0], mark.args[1]
                    names = [a.strip() for a in argnames.split(',')] if isinstance(argnames, str) else list(argnames)
                    params = []
                    for v in argvalues:
                        vals = getattr(v, 'values', v)
                        vals = vals if isinstance(vals, (tuple, list)) else (vals,)
                        params.append((dict(zip(names, vals)), '[' + '-'.join(map(str, vals)) + ']'))
            needed = [p for p in inspect.signature(fn).parameters if p not in names]
            if any(p not in ('build_chart',) for p in needed):
                continue
            for kw, suffix in params:
                out.append((f'{mi.name}::{name}{suffix}', mi.name, name, kw))
    return out


def _reset_mocks(mod) -> None:
    for v in vars(mod).values():
        m = getattr(v, 'mock', None)
        if m is not None and hasattr(m, 'reset_mock') and type(v).__name__ == 'FactoryMocker':
            m.reset_mock()


def work(arg: tuple) -> dict:
    tid, modname, fname, kw, bound, limit = arg
    if env.REPO not in sys.path:
        sys.path.insert(0, env.REPO)
    mod = importlib.import_module(modname)
    fn = getattr(mod, fname)
    needs_bc = 'build_chart' in inspect.signature(fn).parameters

    def factory():
        _reset_mocks(mod)
        kwargs = dict(kw)
        if needs_bc:
            kwargs['build_chart'] = _build_chart
        return fn(**kwargs)

    case = X.Case({'nodes': {}, 'input': '', 'output': ''}, [{}], coro_factory=factory, fam='repo-tests')
    out = dict(test=tid, executions=0, transitions=0, states=0, capped=False, viol={})
    states: t.Set[int] = set()

    def on_exec(x) -> None:
        sym = None
        if x.status != 'done':
            sym = (x.status, f'{tid}: {x.status}; pending tasks {x.diag}')
        else:
            oc = x.outcomes[0]
            if oc[0] == 'raised':
                kind = 'repo-test-assertion-fails' if isinstance(oc[1], AssertionError) else 'repo-test-raises'
                sym = (kind, f'{tid}: {type(oc[1]).__name__}: {str(oc[1])[:300]}')
            elif oc[0] == 'cancelled':
                sym = ('escaped-cancelled', f'{tid}: CancelledError')
            elif x.leftover or x.late:
                sym = ('leftover-tasks', f'{tid}: {x.leftover} {[(e[0], e[2]) for e in x.late][:3]}')
        if sym:
            out['viol'].setdefault(sym[0], [0, sym[1], list(x.actions)])[0] += 1
        states.update(RU.qstates(x))

    st = X.explore(case, bound, on_exec=on_exec, limit=limit)
    out.update(executions=st.executions, transitions=st.transitions, states=len(states), capped=st.capped)
    return out


def run_all(bound: int, limit: int = 20000) -> dict:
    items = [(tid, m, f, kw, bound, limit) for tid, m, f, kw in collect()]
    tot = dict(tests=len(items), executions=0, transitions=0, states=0, capped=0, viol=[], internal=[])
    for res in RU.pmap(work, items, chunksize=1):
        if isinstance(res, tuple) and res and res[0] == '__error__':
            tot['internal'].append(f'repo-tests worker: {res[1]}\n{res[2]}')
            continue
        tot['executions'] += res['executions']
        tot['transitions'] += res['transitions']
        tot['states'] += res['states']
        tot['capped'] += bool(res['capped'])
        for sym, (cnt, detail, actions) in res['viol'].items():
            tot['viol'].append(dict(symptom=sym, detail=detail, schedule=actions, case=dict(repo_test=res['test']), key='rt-' + str(abs(hash(res['test'])) % 10 ** 8),
                                    tags=['repo-tests'], suite='repo-tests', executions_violating=cnt))
    return tot
